//! `pfv heapbfs <spec.json> <out.ndjson>`  (C14, bound to spec/Heap.tla)
//! Breadth-first enumeration of the REAL generator's simulated object graph under the
//! aliasing-relevant opcodes: every enabled opcode of the given set is forced in every
//! visited state, states are de-duplicated on the SHAPE of the graph reachable from the
//! stack and memo roots (kinds, edges, sharing), and for every distinct state the harness
//! records whether a strong reference cycle is reachable and how many bytes stay
//! allocated after the generator that reached it has been dropped.
//! One JSON line per distinct state, parents before children.

use crate::common::*;
use crate::edges::{force, fresh};
use crate::history::LIVE;
use pickle_fuzzer::verif::{self, OpcodeKind};
use pickle_fuzzer::Generator;
use serde::Deserialize;
use serde_json::json;
use std::collections::{HashSet, VecDeque};
use std::io::Write;
use std::sync::atomic::Ordering;

#[derive(Deserialize)]
struct Spec {
    cfg: Cfg,
    depth: usize,
    ops: Vec<u8>,
    seeds: Vec<u64>,
    #[serde(default)]
    max_nodes: usize,
    /// opcodes forced before the enumeration starts
    #[serde(default)]
    prefix: Vec<u8>,
    /// transitions out of states at depth < log_depth are written in full (for TraceHeap.tla)
    #[serde(default)]
    log_depth: usize,
}

fn mix(h: u64, x: u64) -> u64 {
    (h ^ x).wrapping_mul(0x100000001b3).rotate_left(17) ^ 0x9e3779b97f4a7c15
}

/// shape key: three rounds of colour refinement over (kind, in-degree, sorted child colours),
/// then the root colours in order.  Collisions only cost coverage, never soundness.
fn shape_key(s: &verif::HeapSnapshot) -> u64 {
    // one-off snapshots number the reachable cells densely; tolerate sparse ids anyway
    let n = s.cells.iter().map(|c| c.0 as usize + 1).max().unwrap_or(0);
    let mut at = vec![usize::MAX; n];
    for (i, c) in s.cells.iter().enumerate() { at[c.0 as usize] = i; }
    let mut indeg = vec![0u64; n];
    for (_, _, kids, _) in &s.cells {
        for k in kids { indeg[*k as usize] += 1; }
    }
    for r in &s.stack { indeg[*r as usize] += 1; }
    for (_, r) in &s.memo { indeg[*r as usize] += 1; }
    let coarse = |k: u8| -> u64 { match k { 1..=4 => 1, 5 | 7 => 5, x => x as u64 } };
    let mut col: Vec<u64> = (0..n).map(|i| if at[i] == usize::MAX { 0 } else { mix(mix(7, coarse(s.cells[at[i]].1)), indeg[i]) }).collect();
    for _ in 0..3 {
        let mut next = col.clone();
        for i in 0..n {
            if at[i] == usize::MAX { continue; }
            let mut ch: Vec<u64> = s.cells[at[i]].2.iter().map(|k| col[*k as usize]).collect();
            ch.sort_unstable();
            let mut h = mix(col[i], ch.len() as u64);
            for c in ch { h = mix(h, c); }
            next[i] = h;
        }
        col = next;
    }
    let mut h = mix(11, s.stack.len() as u64);
    for r in &s.stack { h = mix(h, col[*r as usize]); }
    for (k, r) in &s.memo { h = mix(mix(h, *k as u64 + 1000), col[*r as usize]); }
    // identical cells referenced from two roots must not look like two equal-shaped cells
    let mut roots: Vec<u32> = s.stack.clone();
    roots.extend(s.memo.iter().map(|(_, r)| *r));
    for i in 0..roots.len() {
        for j in 0..i {
            if roots[i] == roots[j] { h = mix(h, (i * 64 + j) as u64 + 5000); }
        }
    }
    h
}

#[derive(Clone)]
struct St { op: OpcodeKind, seed: u64, byte0: u8, key: i64 }

fn rebuild(cfg: &Cfg, path: &[St]) -> Generator {
    let mut g = fresh(cfg);
    for s in path { let _ = force(&mut g, s.op, s.seed); }
    g
}

/// bytes still allocated after a generator that replayed `path` has been dropped
fn leaked_by(cfg: &Cfg, path: &[St]) -> isize {
    let before = LIVE.load(Ordering::SeqCst);
    {
        let g = rebuild(cfg, path);
        drop(g);
    }
    LIVE.load(Ordering::SeqCst) - before
}

fn get_key(op: OpcodeKind, bytes: &[u8]) -> i64 {
    match op {
        OpcodeKind::BinGet | OpcodeKind::BinPut => bytes.get(1).map(|b| *b as i64).unwrap_or(-1),
        OpcodeKind::LongBinGet | OpcodeKind::LongBinPut if bytes.len() >= 5 => u32::from_le_bytes([bytes[1], bytes[2], bytes[3], bytes[4]]) as i64,
        OpcodeKind::Get | OpcodeKind::Put => std::str::from_utf8(&bytes[1..]).ok().and_then(|s| s.trim().parse::<i64>().ok()).unwrap_or(-1),
        _ => -1,
    }
}

fn snap_json(s: &verif::HeapSnapshot) -> serde_json::Value {
    json!({
        "cells": s.cells.iter().map(|(i, k, kids, cal)| json!([i + 1, k, kids.iter().map(|x| x + 1).collect::<Vec<u32>>(), cal])).collect::<Vec<_>>(),
        "stack": s.stack.iter().map(|x| x + 1).collect::<Vec<u32>>(),
        "memo": s.memo.iter().map(|(k, v)| json!([k, v + 1])).collect::<Vec<_>>(),
    })
}

pub fn main(args: &[String]) -> i32 {
    let spec: Spec = serde_json::from_str(&std::fs::read_to_string(&args[0]).expect("read")).expect("parse");
    std::panic::set_hook(Box::new(|_| {}));
    let mut out = std::io::BufWriter::new(std::fs::File::create(&args[1]).expect("create"));
    let cfg = &spec.cfg;
    let ops: Vec<OpcodeKind> = spec.ops.iter().filter_map(|b| op_by_byte(*b)).collect();
    // warm-up: one-time allocations (opcode tables, module lists) happen here, not inside a measurement
    {
        let mut g = fresh(cfg);
        for op in &ops {
            if g.verif_can_emit(*op) { let _ = force(&mut g, *op, 1); }
        }
        let mut g2 = build_generator(cfg, Some(1));
        let _ = g2.generate();
    }
    let mut root: Vec<St> = Vec::new();
    {
        let mut g0 = fresh(cfg);
        for b in &spec.prefix {
            if let Some(op) = op_by_byte(*b) {
                if g0.verif_can_emit(op) {
                    if let Ok(bytes) = force(&mut g0, op, 1) {
                        root.push(St { op, seed: 1, byte0: bytes.first().copied().unwrap_or(0), key: get_key(op, &bytes) });
                    }
                }
            }
        }
    }
    let root_len = root.len();
    let mut seen: HashSet<u64> = HashSet::new();
    seen.insert(shape_key(&verif::heap_snapshot(&rebuild(cfg, &root))));
    let mut queue: VecDeque<Vec<St>> = VecDeque::new();
    queue.push_back(root);
    let (mut nodes, mut trials, mut cyc, mut leaks, mut maxcells, mut panics, mut steps) = (0usize, 0usize, 0usize, 0usize, 0usize, 0usize, 0usize);
    let mut truncated = false;
    while let Some(path) = queue.pop_front() {
        if spec.max_nodes > 0 && nodes >= spec.max_nodes { truncated = true; break; }
        nodes += 1;
        tick(|| format!("heapbfs node {}", nodes));
        let g = rebuild(cfg, &path);
        let snap = verif::heap_snapshot(&g);
        let enabled = g.verif_valid_opcodes();
        drop(g);
        maxcells = maxcells.max(snap.cells.len());
        let mut leaked = leaked_by(cfg, &path);
        if leaked != 0 { leaked = leaked_by(cfg, &path); }
        if snap.cycle { cyc += 1; }
        if leaked != 0 { leaks += 1; }
        if snap.cycle || leaked != 0 || nodes % 5000 == 1 {
            writeln!(out, "{}", json!({
                "t": "node", "P": cfg.p, "path": path.iter().map(|s| s.byte0).collect::<Vec<u8>>(),
                "claimed": path.iter().map(|s| s.op.as_u8()).collect::<Vec<u8>>(),
                "keys": path.iter().map(|s| s.key).collect::<Vec<i64>>(),
                "seeds": path.iter().map(|s| s.seed.to_string()).collect::<Vec<String>>(),
                "cycle": snap.cycle, "leaked": leaked, "heap": snap_json(&snap),
            })).unwrap();
        }
        let log_steps = path.len() - root_len < spec.log_depth;
        if path.len() - root_len >= spec.depth { continue; }
        for op in &ops {
            if !enabled.contains(op) { continue; }
            for &seed in &spec.seeds {
                trials += 1;
                let mut g2 = rebuild(cfg, &path);
                let mut tracker = verif::HeapTracker::default();
                let pre = if log_steps { Some(tracker.snapshot(&g2)) } else { None };
                let res = std::panic::catch_unwind(std::panic::AssertUnwindSafe(|| force(&mut g2, *op, seed)));
                let bytes = match res {
                    Ok(Ok(b)) => b,
                    Ok(Err(_)) => continue,
                    Err(_) => { panics += 1; std::mem::forget(g2); continue; }
                };
                if let Some(pre) = pre {
                    let post = tracker.snapshot(&g2);
                    steps += 1;
                    writeln!(out, "{}", json!({
                        "t": "step", "P": cfg.p, "op": op.as_u8(), "byte": bytes.first().copied().unwrap_or(0),
                        "key": get_key(*op, &bytes), "pre": snap_json(&pre), "post": snap_json(&post), "cycle": post.cycle,
                        "path": path.iter().map(|s| s.byte0).collect::<Vec<u8>>(),
                    })).unwrap();
                }
                drop(tracker);
                let k = shape_key(&verif::heap_snapshot(&g2));
                if seen.insert(k) {
                    let mut p2 = path.clone();
                    p2.push(St { op: *op, seed, byte0: bytes.first().copied().unwrap_or(0), key: get_key(*op, &bytes) });
                    queue.push_back(p2);
                }
                // only memo reads depend on the entropy source in a way the shape can see
                if !matches!(op, OpcodeKind::Get | OpcodeKind::BinGet | OpcodeKind::LongBinGet) { break; }
            }
        }
    }
    out.flush().unwrap();
    println!("{}", json!({"P": cfg.p, "nodes": nodes, "trials": trials, "with_cycle": cyc, "leaking": leaks,
        "max_cells": maxcells, "panics": panics, "steps_logged": steps, "depth": spec.depth, "truncated": truncated, "frontier_left": queue.len()}));
    0
}

// ---------------------------------------------------------------------------------------
/// `pfv heapwalk <spec.json> <out.ndjson>`: random walks of the real generator (the harness
/// picks among the opcodes the generator itself enables, with extra weight on the
/// aliasing-relevant ones), every aliasing-relevant transition written with the heap
/// before and after it for TraceHeap.tla; cycle / leak measured at the end of each walk.
#[derive(Deserialize)]
struct WalkSpec {
    cfg: Cfg,
    walks: usize,
    steps: usize,
    ops: Vec<u8>,
    seed: u64,
    /// weight of an aliasing-relevant opcode relative to any other enabled opcode
    #[serde(default)]
    bias: usize,
}

pub fn walk(args: &[String]) -> i32 {
    use rand::{Rng, SeedableRng};
    let spec: WalkSpec = serde_json::from_str(&std::fs::read_to_string(&args[0]).expect("read")).expect("parse");
    std::panic::set_hook(Box::new(|_| {}));
    let mut out = std::io::BufWriter::new(std::fs::File::create(&args[1]).expect("create"));
    let cfg = &spec.cfg;
    let heap_ops: Vec<OpcodeKind> = spec.ops.iter().filter_map(|b| op_by_byte(*b)).collect();
    {
        let mut g = fresh(cfg);
        for op in &heap_ops {
            if g.verif_can_emit(*op) { let _ = force(&mut g, *op, 1); }
        }
        let mut g2 = build_generator(cfg, Some(1));
        let _ = g2.generate();
    }
    let mut rng = rand_chacha::ChaCha8Rng::seed_from_u64(spec.seed);
    let (mut steps, mut logged, mut cyc, mut leaks, mut maxcells, mut panics) = (0usize, 0usize, 0usize, 0usize, 0usize, 0usize);
    for w in 0..spec.walks {
        tick(|| format!("heapwalk walk {}", w));
        let mut path: Vec<St> = Vec::new();
        let mut g = fresh(cfg);
        for k in 0..spec.steps {
            let enabled = g.verif_valid_opcodes();
            if enabled.is_empty() { break; }
            let weights: Vec<usize> = enabled.iter().map(|o| if heap_ops.contains(o) { spec.bias.max(1) } else { 1 }).collect();
            let total: usize = weights.iter().sum();
            let mut r = rng.random_range(0..total);
            let mut op = enabled[0];
            for (o, wt) in enabled.iter().zip(&weights) {
                if r < *wt { op = *o; break; }
                r -= wt;
            }
            let seed = 1 + (rng.random::<u32>() as u64 % 1000);
            let is_heap = heap_ops.contains(&op);
            let mut tracker = verif::HeapTracker::default();
            let pre = if is_heap { Some(tracker.snapshot(&g)) } else { None };
            let res = std::panic::catch_unwind(std::panic::AssertUnwindSafe(|| force(&mut g, op, seed)));
            let bytes = match res {
                Ok(Ok(b)) => b,
                Ok(Err(_)) => break,
                Err(_) => { panics += 1; std::mem::forget(g); g = fresh(cfg); break; }
            };
            steps += 1;
            path.push(St { op, seed, byte0: bytes.first().copied().unwrap_or(0), key: get_key(op, &bytes) });
            if let Some(pre) = pre {
                let post = tracker.snapshot(&g);
                maxcells = maxcells.max(post.cells.len());
                logged += 1;
                writeln!(out, "{}", json!({
                    "t": "step", "P": cfg.p, "op": op.as_u8(), "byte": bytes.first().copied().unwrap_or(0),
                    "key": get_key(op, &bytes), "pre": snap_json(&pre), "post": snap_json(&post), "cycle": post.cycle,
                    "walk": w, "at": k,
                    "path": if post.cycle { path.iter().map(|s| s.byte0).collect::<Vec<u8>>() } else { Vec::new() },
                })).unwrap();
            }
        }
        let snap = verif::heap_snapshot(&g);
        drop(g);
        let mut leaked = leaked_by(cfg, &path);
        if leaked != 0 { leaked = leaked_by(cfg, &path); }
        if snap.cycle { cyc += 1; }
        if leaked != 0 { leaks += 1; }
        if snap.cycle || leaked != 0 {
            writeln!(out, "{}", json!({
                "t": "node", "P": cfg.p, "path": path.iter().map(|s| s.byte0).collect::<Vec<u8>>(),
                "claimed": path.iter().map(|s| s.op.as_u8()).collect::<Vec<u8>>(),
                "keys": path.iter().map(|s| s.key).collect::<Vec<i64>>(),
                "seeds": path.iter().map(|s| s.seed.to_string()).collect::<Vec<String>>(),
                "cycle": snap.cycle, "leaked": leaked, "heap": snap_json(&snap),
            })).unwrap();
        }
    }
    out.flush().unwrap();
    println!("{}", json!({"P": cfg.p, "nodes": spec.walks, "trials": steps, "with_cycle": cyc, "leaking": leaks,
        "max_cells": maxcells, "panics": panics, "steps_logged": logged, "depth": spec.steps, "truncated": false, "frontier_left": 0}));
    0
}
