//! API-level histories of the real generator (C07, C08, C09, C12, C14):
//!   pfv reuse <spec.json> <out.ndjson>        call sequences on one reused generator vs fresh twins
//!   pfv determinism <spec.json> <out.ndjson>  same (cfg,input) grid across threads / processes
//!   pfv total <spec.json> <out.ndjson>        totality sweeps (runs in a child, one line per batch)
//!   pfv opscan <spec.json> <out.ndjson>       which opcodes occur for which seed (default settings)
//!   pfv leak <spec.json> <out.ndjson>         live-heap delta around new..drop per generation
//!   pfv gen-one <job.json>                    one generation, prints hex digest line (child of determinism)

use crate::common::*;
use crate::jobs::{job_input, Job};
use pickle_fuzzer::verif;
use serde::Deserialize;
use serde_json::{json, Value};
use std::io::Write;
use std::panic::{catch_unwind, AssertUnwindSafe};
use std::sync::atomic::{AtomicIsize, AtomicUsize, Ordering};

// ---------------------------------------------------------------- counting allocator
pub struct Counting;
pub static LIVE: AtomicIsize = AtomicIsize::new(0);
pub static ALLOCS: AtomicUsize = AtomicUsize::new(0);
pub static LIVE_N: AtomicIsize = AtomicIsize::new(0);
unsafe impl std::alloc::GlobalAlloc for Counting {
    unsafe fn alloc(&self, l: std::alloc::Layout) -> *mut u8 {
        let p = std::alloc::System.alloc(l);
        if !p.is_null() {
            LIVE.fetch_add(l.size() as isize, Ordering::Relaxed);
            ALLOCS.fetch_add(1, Ordering::Relaxed);
            LIVE_N.fetch_add(1, Ordering::Relaxed);
        }
        p
    }
    unsafe fn dealloc(&self, p: *mut u8, l: std::alloc::Layout) {
        std::alloc::System.dealloc(p, l);
        LIVE.fetch_sub(l.size() as isize, Ordering::Relaxed);
        LIVE_N.fetch_sub(1, Ordering::Relaxed);
    }
    unsafe fn realloc(&self, p: *mut u8, l: std::alloc::Layout, n: usize) -> *mut u8 {
        let q = std::alloc::System.realloc(p, l, n);
        if !q.is_null() {
            LIVE.fetch_add(n as isize - l.size() as isize, Ordering::Relaxed);
        }
        q
    }
}

fn digest(b: &[u8]) -> String {
    format!("{:016x}", fnv64(b))
}

fn cfg_json(c: &Cfg) -> Value {
    serde_json::to_value(c).unwrap()
}

// ---------------------------------------------------------------- reuse (C08)
#[derive(Deserialize)]
struct ReuseSpec {
    cfgs: Vec<Cfg>,
    seed: u64,
    x: Vec<u8>,
    y: Vec<u8>,
    maxlen: usize,
    /// optional per-configuration sequence length (parallel to cfgs)
    #[serde(default)]
    maxlens: Vec<usize>,
    /// optional per-configuration length of ONE long pseudo-random call sequence (0 = none):
    /// anything that depends on HOW MANY calls a generator has served shows up here
    #[serde(default)]
    long_calls: Vec<usize>,
}

/// call alphabet: 1 = generate(), 2 = generate_from_arbitrary(x), 3 = ...(y), 4 = reset()
fn do_call(g: &mut pickle_fuzzer::Generator, c: u8, x: &[u8], y: &[u8]) -> (i64, String, usize) {
    tick(|| format!("reuse call kind {c}"));
    let r = catch_unwind(AssertUnwindSafe(|| match c {
        1 => g.generate().map_err(|e| format!("{e}")),
        2 => g.generate_from_arbitrary(x).map_err(|e| format!("{e}")),
        3 => g.generate_from_arbitrary(y).map_err(|e| format!("{e}")),
        _ => {
            g.reset();
            Ok(Vec::new())
        }
    }));
    match r {
        Ok(Ok(b)) => (1, digest(&b), b.len()),
        Ok(Err(_)) => (2, String::from("err"), 0),
        Err(_) => (3, String::from("panic"), 0),
    }
}

pub fn reuse(args: &[String]) -> i32 {
    let spec: ReuseSpec = serde_json::from_str(&std::fs::read_to_string(&args[0]).unwrap()).unwrap();
    std::panic::set_hook(Box::new(|_| {}));
    // one worker per configuration (the recorder is thread-local)
    let chunks: Vec<Vec<String>> = std::thread::scope(|sc| {
        let hs: Vec<_> = spec.cfgs.iter().enumerate().map(|(ci, cfg)| {
            let spec = &spec;
            sc.spawn(move || {
                let mut out: Vec<String> = Vec::new();
                // fresh twins
                let mut fresh = Vec::new();
                for c in 1..=3u8 {
                    let mut g = build_generator(cfg, Some(spec.seed));
                    let (res, d, n) = do_call(&mut g, c, &spec.x, &spec.y);
                    fresh.push(json!([res, d, n]));
                }
                out.push(json!({"t": "fresh", "cfg": ci, "P": cfg.p, "res": fresh, "seq": [], "calls": []}).to_string());
                // every call sequence up to maxlen
                let mut seqs: Vec<Vec<u8>> = vec![vec![]];
                for _ in 0..spec.maxlens.get(ci).copied().unwrap_or(spec.maxlen) {
                    let mut next = Vec::new();
                    for s in &seqs {
                        for c in 1..=4u8 {
                            let mut t = s.clone();
                            t.push(c);
                            next.push(t);
                        }
                    }
                    for s in &next {
                        let mut g = build_generator(cfg, Some(spec.seed));
                        let mut calls = Vec::new();
                        verif::start_recording(false);
                        for &c in s {
                            let (res, d, n) = do_call(&mut g, c, &spec.x, &spec.y);
                            calls.push(json!([res, d, n]));
                        }
                        // entry state seen by the hook at the start of every generation call
                        let begins: Vec<Value> = verif::stop_recording()
                            .iter()
                            .filter(|e| e.phase == "begin")
                            .map(|e| json!([e.out_len, e.pushed.len() + e.kept, e.memo_len, if e.proto_emitted {1} else {0}]))
                            .collect();
                        out.push(json!({"t": "seq", "cfg": ci, "P": cfg.p, "seq": s, "calls": calls, "res": [], "begins": begins}).to_string());
                    }
                    seqs = next;
                }
                // re-configuration between calls: after each builder call the next result must be what a FRESH
                // generator with the now-current configuration returns
                if cfg.max <= 2000 {
                    let mut cur = cfg.clone();
                    let mut g = build_generator(&cur, Some(spec.seed));
                    let mut got = Vec::new();
                    let mut want = Vec::new();
                    let mut steps: Vec<&str> = Vec::new();
                    let plan: [&str; 12] = ["gen", "buf", "gen", "ext", "gen", "buf", "range", "gen", "bytes", "ver", "gen", "bytes"];
                    for st in plan {
                        match st {
                            "buf" => { cur.buf = !cur.buf; g = g.with_buffer_opcodes(cur.buf); }
                            "ext" => { cur.ext = !cur.ext; g = g.with_ext_opcodes(cur.ext); }
                            "range" => { cur.min += 3; cur.max += 11; g = g.with_opcode_range(cur.min, cur.max); }
                            // re-targeting through the public state field: everything follows the new protocol
                            "ver" => { cur.p = (cur.p + 3) % 6; g.state.version = pickle_fuzzer::Version::try_from(cur.p).expect("protocol"); }
                            _ => {
                                let c = if st == "gen" { 1 } else { 2 };
                                let (res, d, n) = do_call(&mut g, c, &spec.x, &spec.y);
                                got.push(json!([res, d, n]));
                                let mut f = build_generator(&cur, Some(spec.seed));
                                let (res, d, n) = do_call(&mut f, c, &spec.x, &spec.y);
                                want.push(json!([res, d, n]));
                            }
                        }
                        steps.push(st);
                    }
                    out.push(json!({"t": "reconf", "cfg": ci, "P": cfg.p, "steps": steps, "got": got, "want": want}).to_string());
                }
                // a generator WITHOUT a seed draws fresh OS entropy for every generate(): no call may repeat an
                // earlier result, whatever was called in between (reset, generation from fuzzer bytes)
                if ci < 12 {
                    let s: Vec<u8> = vec![1, 4, 1, 2, 1, 4, 4, 1, 3, 1, 1];
                    let mut g = build_generator(cfg, None);
                    let mut calls = Vec::new();
                    for &c in &s {
                        let (res, d, n) = do_call(&mut g, c, &spec.x, &spec.y);
                        calls.push(json!([res, d, n]));
                    }
                    out.push(json!({"t": "unseeded", "cfg": ci, "P": cfg.p, "seq": s, "calls": calls}).to_string());
                }
                let long = spec.long_calls.get(ci).copied().unwrap_or(0);
                if long > 0 {
                    let mut x = spec.seed ^ (ci as u64).wrapping_mul(0x9e3779b97f4a7c15);
                    let s: Vec<u8> = (0..long).map(|_| {
                        x ^= x << 13; x ^= x >> 7; x ^= x << 17;
                        // mostly generation calls, a reset now and then
                        match x % 16 { 0 => 4, k if k < 7 => 1, k if k < 12 => 2, _ => 3 }
                    }).collect();
                    let mut g = build_generator(cfg, Some(spec.seed));
                    let mut calls = Vec::new();
                    verif::start_recording(false);
                    for &c in &s {
                        let (res, d, n) = do_call(&mut g, c, &spec.x, &spec.y);
                        calls.push(json!([res, d, n]));
                    }
                    let begins: Vec<Value> = verif::stop_recording()
                        .iter()
                        .filter(|e| e.phase == "begin")
                        .map(|e| json!([e.out_len, e.pushed.len() + e.kept, e.memo_len, if e.proto_emitted {1} else {0}]))
                        .collect();
                    out.push(json!({"t": "seq", "cfg": ci, "P": cfg.p, "seq": s, "calls": calls, "res": [], "begins": begins}).to_string());
                }
                out
            })
        }).collect();
        hs.into_iter().map(|h| h.join().unwrap()).collect()
    });
    let mut out = std::io::BufWriter::new(std::fs::File::create(&args[1]).unwrap());
    for c in chunks { for l in c { writeln!(out, "{}", l).unwrap(); } }
    0
}

// ---------------------------------------------------------------- determinism (C07)
#[derive(Deserialize)]
struct DetSpec {
    jobs: Vec<Job>,
    threads: usize,
    procs: usize,
    /// groups of job ids (configurations differing in one setting): for every member a fresh
    /// process generates that member FIRST and then the rest of its group
    #[serde(default)]
    groups: Vec<Vec<u64>>,
    /// a directory that holds altered copies of the data files the repository ships: one child process runs
    /// with it as its working directory (and with a changed environment)
    #[serde(default)]
    decoy_cwd: String,
}

fn run_plain(job: &Job) -> (i64, String, usize) {
    tick(|| format!("generation job {}", serde_json::to_string(job).unwrap_or_default()));
    let input = if job.mode == "bytes" { job_input(job) } else { Vec::new() };
    let r = catch_unwind(AssertUnwindSafe(|| {
        let mut g = build_generator(&job.cfg, if job.mode == "seed" { Some(job.seed) } else { None });
        for _ in 0..job.warm {
            let _ = if job.mode == "seed" { g.generate() } else { g.generate_from_arbitrary(&input) };
        }
        if !job.force.is_empty() {
            // forced opcode choices for the first body steps, free choices afterwards
            verif::start_recording(false);
            verif::set_forces(job.force.iter().filter_map(|(i, b)| op_by_byte(*b).map(|o| (*i, o))).collect());
        }
        let r = if job.mode == "seed" { g.generate() } else { g.generate_from_arbitrary(&input) }.map_err(|e| format!("{e}"));
        if !job.force.is_empty() { let _ = verif::stop_recording(); }
        r
    }));
    match r {
        Ok(Ok(b)) => (1, digest(&b), b.len()),
        Ok(Err(_)) => (2, "err".into(), 0),
        Err(_) => (3, "panic".into(), 0),
    }
}

pub fn gen_batch(args: &[String]) -> i32 {
    // child process: run every job of the file, print "id digest len" lines
    let mut jobs: Vec<Job> = serde_json::from_str(&std::fs::read_to_string(&args[0]).unwrap()).unwrap();
    std::panic::set_hook(Box::new(|_| {}));
    let order: usize = args.get(1).and_then(|s| s.parse().ok()).unwrap_or(0);
    if !jobs.is_empty() {
        let k = (order * 13) % jobs.len();
        jobs.rotate_left(k);
        if order % 2 == 1 {
            jobs.reverse();
        }
    }
    for j in &jobs {
        let (res, d, n) = run_plain(j);
        println!("{} {} {} {}", j.id, res, d, n);
    }
    0
}

pub fn determinism(args: &[String]) -> i32 {
    let spec: DetSpec = serde_json::from_str(&std::fs::read_to_string(&args[0]).unwrap()).unwrap();
    let mut out = std::io::BufWriter::new(std::fs::File::create(&args[1]).unwrap());
    std::panic::set_hook(Box::new(|_| {}));
    let rec = |ctx: String, id: u64, r: (i64, String, usize)| json!({"ctx": ctx, "job": id, "res": r.0, "digest": r.1, "len": r.2});
    // (a) twice in this thread
    for round in 0..2 {
        let mut order: Vec<&Job> = spec.jobs.iter().collect();
        if round == 1 {
            order.reverse();
        }
        for j in order {
            writeln!(out, "{}", rec(format!("main-{round}"), j.id, run_plain(j))).unwrap();
        }
    }
    // (a') the same configuration reached through the one-at-a-time builder methods
    for j in &spec.jobs {
        let mut j2 = j.clone();
        j2.cfg.alt_builder = !j2.cfg.alt_builder;
        writeln!(out, "{}", rec("main-other-builder-route".to_string(), j.id, run_plain(&j2))).unwrap();
    }
    // (b) concurrently on `threads` threads, all starting together
    let barrier = std::sync::Arc::new(std::sync::Barrier::new(spec.threads));
    let jobs = std::sync::Arc::new(spec.jobs.clone());
    let mut hs = Vec::new();
    for t in 0..spec.threads {
        let b = barrier.clone();
        let js = jobs.clone();
        hs.push(std::thread::Builder::new().stack_size(64 << 20).spawn(move || {
            b.wait();
            // each thread walks the grid from a different offset so different jobs overlap in time
            let n = js.len();
            (0..n).map(|i| { let j = &js[(i + t * 7) % n]; (j.id, run_plain(j)) }).collect::<Vec<_>>()
        }).unwrap());
    }
    for (t, h) in hs.into_iter().enumerate() {
        for (id, r) in h.join().unwrap() {
            writeln!(out, "{}", rec(format!("thread-{t}"), id, r)).unwrap();
        }
    }
    // (c) separately spawned processes (fresh hash seeds, fresh address space)
    let exe = std::env::current_exe().unwrap();
    let jf = format!("{}.jobs.json", args[1]);
    std::fs::write(&jf, serde_json::to_string(&serde_json::to_value(
        spec.jobs.iter().map(|j| json!({"id": j.id, "cfg": cfg_json(&j.cfg), "mode": j.mode, "seed": j.seed,
            "bkind": j.bkind, "blen": j.blen, "bytes": j.bytes, "force": j.force, "warm": j.warm})).collect::<Vec<_>>()).unwrap()).unwrap()).unwrap();
    for p in 0..spec.procs {
        // every child walks the grid in a different order (rotation, odd ones reversed), so
        // anything that depends on what the process generated before shows up as a difference
        let mut cmd = std::process::Command::new(&exe);
        cmd.arg("gen-batch").arg(&jf).arg(p.to_string());
        if p == 0 && !spec.decoy_cwd.is_empty() {
            // nothing in the environment of the process is an input of generation
            cmd.current_dir(&spec.decoy_cwd).env("HOME", &spec.decoy_cwd).env("LANG", "tr_TR.UTF-8").env("LC_ALL", "tr_TR.UTF-8")
               .env("TZ", "Pacific/Kiritimati").env("RAYON_NUM_THREADS", "3").env("RUST_BACKTRACE", "1").env("TMPDIR", &spec.decoy_cwd);
        }
        let o = cmd.output().unwrap();
        for l in String::from_utf8_lossy(&o.stdout).lines() {
            let f: Vec<&str> = l.split(' ').collect();
            if f.len() == 4 {
                writeln!(out, "{}", json!({"ctx": format!("proc-{p}"), "job": f[0].parse::<u64>().unwrap(),
                    "res": f[1].parse::<i64>().unwrap(), "digest": f[2], "len": f[3].parse::<usize>().unwrap()})).unwrap();
            }
        }
        if !o.status.success() {
            writeln!(out, "{}", json!({"ctx": format!("proc-{p}"), "job": 0, "res": 4, "digest": "child-failed", "len": 0})).unwrap();
        }
    }
    let _ = std::fs::remove_file(&jf);
    // (d) process-history dependence: each member of a group first in a fresh process
    let mut child = 0usize;
    for g in &spec.groups {
        for first in g {
            let mut order: Vec<&Job> = spec.jobs.iter().filter(|j| j.id == *first).collect();
            order.extend(spec.jobs.iter().filter(|j| g.contains(&j.id) && j.id != *first));
            let gf = format!("{}.group.json", args[1]);
            std::fs::write(&gf, serde_json::to_string(&order).unwrap()).unwrap();
            let o = std::process::Command::new(&exe).arg("gen-batch").arg(&gf).output().unwrap();
            for l in String::from_utf8_lossy(&o.stdout).lines() {
                let f: Vec<&str> = l.split(' ').collect();
                if f.len() == 4 {
                    writeln!(out, "{}", json!({"ctx": format!("first-{child}"), "job": f[0].parse::<u64>().unwrap(),
                        "res": f[1].parse::<i64>().unwrap(), "digest": f[2], "len": f[3].parse::<usize>().unwrap()})).unwrap();
                }
            }
            let _ = std::fs::remove_file(&gf);
            child += 1;
        }
    }
    0
}

// ---------------------------------------------------------------- totality (C09)
#[derive(Deserialize, Clone)]
struct TotalBatch {
    id: u64,
    cfg: Cfg,
    /// "all2": every byte string of length <= 2; "random": n random strings up to maxlen; "seeds": n seeds
    kind: String,
    #[serde(default)]
    n: usize,
    #[serde(default)]
    maxlen: usize,
    #[serde(default)]
    seed: u64,
}

pub fn total_child(args: &[String]) -> i32 {
    let b: TotalBatch = serde_json::from_str(&std::fs::read_to_string(&args[0]).unwrap()).unwrap();
    std::panic::set_hook(Box::new(|_| {}));
    let (mut calls, mut ok, mut nonempty, mut stop_last) = (0u64, 0u64, 0u64, 0u64);
    let mut first_bad = String::new();
    let mut one = |input: Option<&[u8]>, seed: u64| {
        calls += 1;
        let r = catch_unwind(AssertUnwindSafe(|| {
            let mut g = build_generator(&b.cfg, if input.is_none() { Some(seed) } else { None });
            match input { Some(i) => g.generate_from_arbitrary(i), None => g.generate() }.map_err(|e| format!("{e}"))
        }));
        match r {
            Ok(Ok(v)) => {
                ok += 1;
                if !v.is_empty() { nonempty += 1; }
                if v.last() == Some(&0x2e) { stop_last += 1; }
            }
            Ok(Err(e)) => if first_bad.is_empty() { first_bad = format!("Err({e}) input={:?} seed={seed}", input.map(hex)); },
            Err(p) => if first_bad.is_empty() {
                let m = p.downcast_ref::<String>().cloned().or_else(|| p.downcast_ref::<&str>().map(|s| s.to_string())).unwrap_or_default();
                first_bad = format!("panic({m}) input={:?} seed={seed}", input.map(hex));
            },
        }
    };
    match b.kind.as_str() {
        "all2" => {
            one(Some(&[]), 0);
            for a in 0..=255u8 { one(Some(&[a]), 0); }
            for a in 0..=255u8 { for c in 0..=255u8 { one(Some(&[a, c]), 0); } }
        }
        "shaped" => {
            // value-directed one/two-opcode generations: [frame coin?][opcode choice][variant choice]
            // [4 or 8 value bytes at their extremes][tail feeding the mutation gate and the mutators]
            let vals: [[u8; 8]; 10] = [
                [0xff, 0xff, 0xff, 0x7f, 0xff, 0xff, 0xff, 0x7f], [0, 0, 0, 0x80, 0, 0, 0, 0x80], [0; 8], [0xff; 8],
                [1, 0, 0, 0, 0, 0, 0, 0], [0xfe, 0xff, 0xff, 0x7f, 0, 0, 0, 0], [0, 0, 0, 0, 0, 0, 0xf0, 0x7f],
                [0, 0, 0, 0, 0, 0, 0xf8, 0x7f], [0xff, 0xff, 0xff, 0xff, 0xff, 0xff, 0xef, 0x7f], [0x1f, 0, 0, 0, 0x41, 0x41, 0x27, 0x5c],
            ];
            let tails: [[u8; 24]; 4] = [[0; 24], [0xff; 24], [0x80; 24], [0x01; 24]];
            for lead in 0..2 {
                for c in 0..=255u8 {
                    for v in 0..8u8 {
                        for val in &vals {
                            for tail in &tails {
                                let mut inp: Vec<u8> = Vec::with_capacity(40);
                                if lead == 1 { inp.push(0); }
                                inp.push(c);
                                inp.push(v);
                                inp.extend_from_slice(val);
                                inp.extend_from_slice(tail);
                                one(Some(&inp), 0);
                            }
                        }
                    }
                }
            }
        }
        "nest" => {
            // long periodic inputs (one opcode choice repeated: the deepest nesting and the longest memo an
            // input of `maxlen` bytes can produce), run on a thread with the default 2 MiB stack
            use rand::{Rng, SeedableRng};
            let mut rng = rand_chacha::ChaCha8Rng::seed_from_u64(b.seed);
            let mut inputs: Vec<Vec<u8>> = (0..=255u8).map(|c| vec![c; b.maxlen]).collect();
            for _ in 0..b.n {
                let (x, y, lead): (u8, u8, u8) = (rng.random(), rng.random(), rng.random());
                let mut v = vec![lead, x];
                while v.len() < b.maxlen { v.push(y); v.push(x); }
                inputs.push(v);
            }
            std::thread::scope(|sc| {
                std::thread::Builder::new().stack_size(2 << 20).spawn_scoped(sc, || {
                    for inp in &inputs { one(Some(inp), 0); }
                }).unwrap().join().unwrap();
            });
        }
        "random" => {
            use rand::{Rng, RngCore, SeedableRng};
            let mut rng = rand_chacha::ChaCha8Rng::seed_from_u64(b.seed);
            for _ in 0..b.n {
                let len = rng.random_range(0..=b.maxlen);
                let mut v = vec![0u8; len];
                rng.fill_bytes(&mut v);
                // bias: runs of 0x00 / 0xff, which drive the adapters to their extremes
                if rng.random_range(0..4) == 0 { let f = if rng.random() { 0u8 } else { 0xff }; for x in v.iter_mut().skip(len / 2) { *x = f; } }
                one(Some(&v), 0);
            }
        }
        _ => {
            for i in 0..b.n as u64 { one(None, b.seed.wrapping_add(i)); }
        }
    }
    println!("{}", json!({"id": b.id, "calls": calls, "ok": ok, "nonempty": nonempty, "stop_last": stop_last, "first_bad": first_bad}));
    0
}

pub fn total(args: &[String]) -> i32 {
    #[derive(Deserialize)]
    struct Spec { batches: Vec<TotalBatch>, timeout_s: u64, parallel: usize }
    let spec: Spec = serde_json::from_str(&std::fs::read_to_string(&args[0]).unwrap()).unwrap();
    let exe = std::env::current_exe().unwrap();
    let results = std::sync::Mutex::new(Vec::new());
    let next = AtomicUsize::new(0);
    std::thread::scope(|s| {
        for w in 0..spec.parallel.max(1) {
            let (results, next, spec, exe, args) = (&results, &next, &spec, &exe, args);
            s.spawn(move || loop {
                let i = next.fetch_add(1, Ordering::SeqCst);
                if i >= spec.batches.len() { break; }
                let b = &spec.batches[i];
                let bf = format!("{}.batch{}_{}.json", args[1], w, i);
                std::fs::write(&bf, serde_json::to_string(&json!({"id": b.id, "cfg": cfg_json(&b.cfg), "kind": b.kind,
                    "n": b.n, "maxlen": b.maxlen, "seed": b.seed})).unwrap()).unwrap();
                let mut child = std::process::Command::new(exe).arg("total-child").arg(&bf)
                    .stdout(std::process::Stdio::piped()).stderr(std::process::Stdio::null()).spawn().unwrap();
                let t0 = std::time::Instant::now();
                let status = loop {
                    match child.try_wait().unwrap() {
                        Some(st) => break Some(st),
                        None => {
                            // tiny-program batches finish in seconds: a short watchdog keeps a hang from stalling the check
                            let limit = if b.kind == "all2" || b.kind == "shaped" { spec.timeout_s.min(90) } else { spec.timeout_s };
                            if t0.elapsed().as_secs() > limit { let _ = child.kill(); let _ = child.wait(); break None; }
                            std::thread::sleep(std::time::Duration::from_millis(20));
                        }
                    }
                };
                let mut so = String::new();
                if let Some(mut o) = child.stdout.take() { use std::io::Read; let _ = o.read_to_string(&mut so); }
                let _ = std::fs::remove_file(&bf);
                let line: Value = match (status, serde_json::from_str::<Value>(so.trim())) {
                    (Some(st), Ok(mut v)) if st.success() => { v["exit"] = json!(1); v }
                    (None, _) => json!({"id": b.id, "calls": 0, "ok": 0, "nonempty": 0, "stop_last": 0, "first_bad": "watchdog timeout", "exit": 3}),
                    (Some(st), _) => json!({"id": b.id, "calls": 0, "ok": 0, "nonempty": 0, "stop_last": 0,
                        "first_bad": format!("child died: {st}"), "exit": 2}),
                };
                results.lock().unwrap().push(line);
            });
        }
    });
    let mut rs = results.into_inner().unwrap();
    rs.sort_by_key(|v| v["id"].as_u64().unwrap_or(0));
    let mut out = std::io::BufWriter::new(std::fs::File::create(&args[1]).unwrap());
    for r in rs { writeln!(out, "{}", r).unwrap(); }
    0
}

// ---------------------------------------------------------------- opcode scan (C12)
pub fn opscan(args: &[String]) -> i32 {
    #[derive(Deserialize)]
    struct Spec { protocols: Vec<usize>, first_seed: u64, n: u64, threads: usize,
                  /// (ext, buf) flag variants scanned one after the other IN THIS PROCESS, in this order
                  #[serde(default)] variants: Vec<(bool, bool)> }
    let spec: Spec = serde_json::from_str(&std::fs::read_to_string(&args[0]).unwrap()).unwrap();
    std::panic::set_hook(Box::new(|_| {}));
    let mut out = std::io::BufWriter::new(std::fs::File::create(&args[1]).unwrap());
    let variants: Vec<(bool, bool)> = if spec.variants.is_empty() { vec![(false, false)] } else { spec.variants.clone() };
    for &(vext, vbuf) in &variants {
    for &p in &spec.protocols {
        // first seed per opcode byte, first framed / unframed seed
        let chunks: Vec<(u64, u64)> = (0..spec.threads as u64).map(|t| (t, spec.threads as u64)).collect();
        let mut hs = Vec::new();
        for (t, step) in chunks {
            let (first_seed, n) = (spec.first_seed, spec.n);
            hs.push(std::thread::Builder::new().stack_size(64 << 20).spawn(move || {
                let mut first: std::collections::BTreeMap<u16, u64> = Default::default();
                let mut i = t;
                while i < n {
                    let seed = first_seed + i;
                    tick(|| format!("opscan protocol {p} seed {seed}"));
                    let cfg = Cfg { p, min: 60, max: 300, muts: vec![], mut_unsafe: false, rate: 0.1, rate_raw: false, rate_special: String::new(), unsafe_: false, ext: vext, buf: vbuf, bufsize: None, alt_builder: false };
                    let mut g = build_generator(&cfg, Some(seed));
                    verif::start_recording(false);
                    let r = catch_unwind(AssertUnwindSafe(|| g.generate()));
                    let ev = verif::stop_recording();
                    if let Ok(Ok(bytes)) = r {
                        let mut prev = 0usize;
                        let mut framed = false;
                        for e in &ev {
                            if e.out_len > prev && prev < bytes.len() {
                                let op = bytes[prev] as u16;
                                if e.phase == "reserve" { framed = true; }
                                first.entry(op).and_modify(|s| if seed < *s { *s = seed }).or_insert(seed);
                            }
                            prev = e.out_len;
                        }
                        let key = if framed { 256 } else { 257 };
                        first.entry(key).and_modify(|s| if seed < *s { *s = seed }).or_insert(seed);
                    }
                    i += step;
                }
                first
            }).unwrap());
        }
        let mut first: std::collections::BTreeMap<u16, u64> = Default::default();
        for h in hs {
            for (k, s) in h.join().unwrap() {
                first.entry(k).and_modify(|x| if s < *x { *x = s }).or_insert(s);
            }
        }
        writeln!(out, "{}", json!({"P": p, "first_seed": spec.first_seed, "n": spec.n, "ext": if vext {1} else {0}, "buf": if vbuf {1} else {0},
            "first": first.iter().map(|(k, s)| json!([k, s.to_string()])).collect::<Vec<_>>()})).unwrap();
    }
    }
    0
}

// ---------------------------------------------------------------- leak (C14)
pub fn leak(args: &[String]) -> i32 {
    let jobs: Vec<Job> = serde_json::from_str(&std::fs::read_to_string(&args[0]).unwrap()).unwrap();
    std::panic::set_hook(Box::new(|_| {}));
    let order = all_ops_sorted();
    let mut lines: Vec<String> = Vec::new();
    // warm-up: one generation per protocol so one-time allocations (module table) are done
    for p in 0..6 {
        let c = Cfg { p, min: 10, max: 20, muts: vec![], mut_unsafe: false, rate: 0.1, rate_raw: false, rate_special: String::new(), unsafe_: false, ext: false, buf: false, bufsize: None, alt_builder: false };
        let mut g = build_generator(&c, Some(1));
        let _ = g.generate();
    }
    // one generation on a joined worker thread: thread start-up allocations of the runtime are done
    for p in [0usize, 5] {
        let _ = std::thread::spawn(move || {
            let c = Cfg { p, min: 10, max: 20, muts: vec![], mut_unsafe: false, rate: 0.1, rate_raw: false, rate_special: String::new(), unsafe_: false, ext: false, buf: false, bufsize: None, alt_builder: false };
            let mut g = build_generator(&c, Some(1));
            let _ = g.generate();
        }).join();
    }
    for job in &jobs {
        tick(|| format!("leak job {}", serde_json::to_string(job).unwrap_or_default()));
        let input = if job.mode == "bytes" { job_input(job) } else { Vec::new() };
        // measured run, no recorder
        let before = LIVE.load(Ordering::SeqCst);
        let mut mid = 0isize;
        let body = |mid: &mut isize| {
            let mut g = build_generator(&job.cfg, if job.mode == "seed" { Some(job.seed) } else { None });
            let mut ok = true;
            for _ in 0..=job.warm {
                let r = if job.mode == "seed" { g.generate() } else { g.generate_from_arbitrary(&input) };
                ok &= r.is_ok();
                drop(r);
            }
            if job.heap {
                // reset() must release everything too
                g.reset();
                g.output.shrink_to_fit();
                *mid = LIVE.load(Ordering::SeqCst);
            }
            drop(g);
            ok
        };
        let res = if job.thread {
            // a short-lived worker thread: whatever it allocated must be gone once it has been joined
            catch_unwind(AssertUnwindSafe(|| std::thread::scope(|sc| {
                std::thread::Builder::new().stack_size(64 << 20).spawn_scoped(sc, || { let mut m = 0isize; body(&mut m) }).unwrap().join().unwrap_or(false)
            })))
        } else {
            catch_unwind(AssertUnwindSafe(|| body(&mut mid)))
        };
        let after = LIVE.load(Ordering::SeqCst);
        // bounded memory under reuse: live ALLOCATIONS after reset() (buffers keep their capacity, so bytes
        // may differ, but every container is one allocation) after n calls and after 2n calls, every call
        // with a different input
        let mut growth: isize = 0;
        if job.growth > 0 {
            let _ = catch_unwind(AssertUnwindSafe(|| {
                let mut g = build_generator(&job.cfg, None);
                let mut counts = [0isize; 2];
                for phase in 0..2 {
                    for i in 0..job.growth {
                        let inp = make_bytes(&job.bkind, job.blen, job.seed.wrapping_add((phase * job.growth + i) as u64 * 7919));
                        let r = g.generate_from_arbitrary(&inp);
                        drop(r);
                    }
                    g.reset();
                    counts[phase] = LIVE_N.load(Ordering::SeqCst);
                }
                growth = counts[1] - counts[0];
            }));
        }
        // second run of the same job with the recorder in cycle-tracking mode
        let mut g = build_generator(&job.cfg, if job.mode == "seed" { Some(job.seed) } else { None });
        verif::start_recording(true);
        let _ = catch_unwind(AssertUnwindSafe(|| if job.mode == "seed" { g.generate() } else { g.generate_from_arbitrary(&input) }));
        let ev = verif::stop_recording();
        drop(g);
        // Heap!Unshared on the real run: no cell is held by two stack slots at once
        let mut ids: Vec<u32> = Vec::new();
        let mut shared = 0usize;
        for e in &ev {
            ids.truncate(e.kept);
            ids.extend_from_slice(&e.pushed_ids);
            if !e.pushed_ids.is_empty() {
                let mut seen = std::collections::HashSet::new();
                if !ids.iter().all(|i| seen.insert(*i)) {
                    shared += 1;
                }
            }
        }
        let cyc_at = ev.iter().position(|e| e.cycle);
        let (cyc_op, cyc_ev) = match cyc_at { Some(i) => (ev[i].op.map(|o| o.as_u8() as i64).unwrap_or(-1), i as i64 + 1), None => (-1, 0) };
        let _ = &order;
        lines.push(serde_json::to_string(&json!({"id": job.id, "P": job.cfg.p, "ok": matches!(res, Ok(true)), "leaked": after - before,
            "after_reset": if job.heap { mid - before } else { 0 }, "calls": job.warm + 1 + 2 * job.growth, "growth": growth,
            "shared": shared, "cycle": cyc_at.is_some(), "cycle_op": cyc_op, "cycle_event": cyc_ev, "events": ev.len()})).unwrap());
    }
    let mut out = std::io::BufWriter::new(std::fs::File::create(&args[1]).unwrap());
    for l in lines { writeln!(out, "{}", l).unwrap(); }
    0
}

// ---------------------------------------------------------------- library bytes for a configuration (C13)
pub fn libgen(args: &[String]) -> i32 {
    let jobs: Vec<Job> = serde_json::from_str(&std::fs::read_to_string(&args[0]).unwrap()).unwrap();
    std::panic::set_hook(Box::new(|_| {}));
    let mut out = std::io::BufWriter::new(std::fs::File::create(&args[1]).unwrap());
    for j in &jobs {
        tick(|| format!("library generation job {}", serde_json::to_string(j).unwrap_or_default()));
        let input = if j.mode == "bytes" { job_input(j) } else { Vec::new() };
        let r = catch_unwind(AssertUnwindSafe(|| {
            let mut g = build_generator(&j.cfg, if j.mode == "seed" { Some(j.seed) } else { None });
            if j.mode == "seed" { g.generate() } else { g.generate_from_arbitrary(&input) }.map_err(|e| format!("{e}"))
        }));
        let (res, hexs) = match r { Ok(Ok(b)) => (1, hex(&b)), Ok(Err(_)) => (2, String::new()), Err(_) => (3, String::new()) };
        writeln!(out, "{}", json!({"id": j.id, "res": res, "hex": hexs})).unwrap();
    }
    0
}
