//! `pfv run-jobs <jobs.json> <out.ndjson> [threads]`
//! Runs whole generations of the real generator with the event recorder on and
//! writes one JSON line per generation (configuration, input, returned bytes, events).

use crate::common::*;
use pickle_fuzzer::verif;
use serde::Deserialize;
use serde_json::{json, Value};
use std::io::Write;
use std::panic::{catch_unwind, AssertUnwindSafe};

#[derive(Debug, Clone, Deserialize, serde::Serialize)]
pub struct Job {
    pub id: u64,
    pub cfg: Cfg,
    pub mode: String,
    #[serde(default)]
    pub seed: u64,
    #[serde(default)]
    pub bkind: String,
    #[serde(default)]
    pub blen: usize,
    #[serde(default)]
    pub bytes: Option<Vec<u8>>,
    #[serde(default)]
    pub heap: bool,
    #[serde(default = "yes")]
    pub rec: bool,
    /// number of generate calls on the same generator before the recorded one (reuse)
    #[serde(default)]
    pub warm: usize,
    /// judged with the depth-only reference machine (passed through to the trace line by the driver)
    #[serde(default)]
    pub deep: u8,
    /// forced opcode choices: (0-based body step, opcode byte)
    #[serde(default)]
    pub force: Vec<(usize, u8)>,
    /// leak measurement: construct, generate and drop on a freshly spawned thread that is joined
    /// before the live heap is read again
    #[serde(default)]
    pub thread: bool,
    /// between the calls of a history the caller takes the output buffer out of the public
    /// `output` field (std::mem::take) instead of copying the returned bytes
    #[serde(default)]
    pub take_output: bool,
    /// leak measurement: number of generation calls (each with a different input) per phase; the
    /// number of live allocations after reset() is compared between two phases
    #[serde(default)]
    pub growth: usize,
    /// the generator is CONSTRUCTED for this protocol and re-targeted to cfg.P through the public
    /// `state.version` field after the warm-up calls (the judged pickle is a protocol-cfg.P pickle)
    #[serde(default)]
    pub retarget_from: Option<usize>,
}

fn yes() -> bool {
    true
}

pub fn job_input(job: &Job) -> Vec<u8> {
    match &job.bytes {
        Some(b) => b.clone(),
        None => make_bytes(&job.bkind, job.blen, job.seed),
    }
}

pub fn run_job(job: &Job) -> Value {
    tick(|| format!("generation job {}", job.id));
    let order = all_ops_sorted();
    let input = if job.mode == "bytes" {
        job_input(job)
    } else {
        Vec::new()
    };
    let outcome = catch_unwind(AssertUnwindSafe(|| {
        let mut first_cfg = job.cfg.clone();
        if let Some(p0) = job.retarget_from { first_cfg.p = p0; }
        let mut g = build_generator(
            &first_cfg,
            if job.mode == "seed" {
                Some(job.seed)
            } else {
                None
            },
        );
        for k in 0..=job.warm {
            if k == job.warm {
                if job.retarget_from.is_some() {
                    g.state.version = pickle_fuzzer::Version::try_from(job.cfg.p).expect("protocol");
                }
                break;
            }
            let _ = if job.mode == "seed" {
                g.generate()
            } else {
                g.generate_from_arbitrary(&input)
            };
            if job.take_output {
                let _ = std::mem::take(&mut g.output);
            }
        }
        if job.rec {
            verif::start_recording(job.heap);
            if !job.force.is_empty() {
                verif::set_forces(job.force.iter().filter_map(|(i, b)| op_by_byte(*b).map(|o| (*i, o))).collect());
            }
        }
        let mut consumed: i64 = -1;
        let r = if job.mode == "seed" {
            g.generate()
        } else {
            // same as generate_from_arbitrary(&input), but the harness keeps the Unstructured so
            // that it can report how many input bytes the generation consumed
            let mut u = arbitrary::Unstructured::new(&input);
            let r = {
                let mut src = verif::GenerationSource::Arbitrary(unsafe { &mut *(&mut u as *mut arbitrary::Unstructured) });
                g.verif_generate_with(&mut src)
            };
            consumed = (input.len() - u.len()) as i64;
            r
        };
        let ev = verif::stop_recording();
        (r.map_err(|e| format!("{e}")), ev, consumed)
    }));
    let (res, msg, bytes, ev, consumed) = match outcome {
        Ok((Ok(b), ev, c)) => ("ok", String::new(), b, ev, c),
        // a failed call has no bytes to check its events against: the record carries the failure only
        Ok((Err(m), ev, c)) => ("err", format!("{m} (after {} recorded events)", ev.len()), Vec::new(), Vec::new(), c),
        Err(p) => {
            let ev = verif::stop_recording();
            let m = p
                .downcast_ref::<String>()
                .cloned()
                .or_else(|| p.downcast_ref::<&str>().map(|s| s.to_string()))
                .unwrap_or_else(|| "panic".into());
            ("panic", format!("{m} (after {} recorded events)", ev.len()), Vec::new(), Vec::new(), -1)
        }
    };
    // the input bytes travel to TLC only where the entropy model applies (no mutators, moderate size)
    let safe_extreme = !job.cfg.unsafe_ && !job.cfg.mut_unsafe && job.cfg.rate_special.is_empty() && (job.cfg.rate <= 0.0 || job.cfg.rate >= 1.0);
    let with_inp = job.mode == "bytes" && (job.cfg.muts.is_empty() || safe_extreme) && input.len() <= 4096 && job.warm == 0 && job.force.is_empty();
    let evj: Vec<Value> = ev.iter().map(|e| event_json(e, &order)).collect();
    json!({
        "id": job.id,
        "cfg": {
            "P": job.cfg.p, "min": job.cfg.min, "max": job.cfg.max,
            "muts": job.cfg.muts.iter().map(|m| MUTATOR_NAMES.iter().position(|n| n == m).map(|i| i as i64 + 1).unwrap_or(0)).collect::<Vec<_>>(),
            "mutUnsafe": if job.cfg.mut_unsafe {1} else {0},
            "rate": if job.cfg.rate <= 0.0 {0} else if job.cfg.rate >= 1.0 {2} else {1},
            "unsafe": if job.cfg.unsafe_ {1} else {0},
            "ext": if job.cfg.ext {1} else {0},
            "buf": if job.cfg.buf {1} else {0},
        },
        "mode": if job.mode == "seed" {1} else {2},
        "seed": job.seed.to_string(),
        "input": hex(&input),
        "hasinp": if with_inp {1} else {0},
        "inp": if with_inp { input.clone() } else { Vec::new() },
        "consumed": consumed,
        "res": match res {"ok" => 1, "err" => 2, _ => 3},
        "msg": msg,
        "bytes": bytes,
        "ev": evj,
    })
}

pub fn main(args: &[String]) -> i32 {
    if args.len() < 2 {
        eprintln!("usage: pfv <run> <jobs.json> <out.ndjson> [threads]");
        return 2;
    }
    let threads: usize = args.get(2).and_then(|s| s.parse().ok()).unwrap_or(8);
    let limit_s: u64 = std::env::var("PFV_JOB_TIMEOUT_S").ok().and_then(|s| s.parse().ok()).unwrap_or(300);
    let text = std::fs::read_to_string(&args[0]).expect("read jobs");
    let jobs: std::sync::Arc<Vec<Job>> = std::sync::Arc::new(serde_json::from_str(&text).expect("parse jobs"));
    std::panic::set_hook(Box::new(|_| {}));
    let n = jobs.len();
    // shared queue; every worker publishes the job it is working on so that a generation that does
    // not return (C09) is reported as such instead of stalling the whole run
    let next = std::sync::Arc::new(std::sync::atomic::AtomicUsize::new(0));
    let results: std::sync::Arc<std::sync::Mutex<Vec<(u64, String)>>> = Default::default();
    let current: std::sync::Arc<Vec<std::sync::Mutex<Option<(usize, std::time::Instant)>>>> =
        std::sync::Arc::new((0..threads).map(|_| std::sync::Mutex::new(None)).collect());
    let stack_mb = std::env::var("PFV_STACK_MB").ok().and_then(|s| s.parse::<usize>().ok()).unwrap_or(256);
    let mut handles = Vec::new();
    for w in 0..threads {
        let (jobs, next, results, current) = (jobs.clone(), next.clone(), results.clone(), current.clone());
        handles.push(
            std::thread::Builder::new()
                .stack_size(stack_mb << 20)
                .spawn(move || loop {
                    let i = next.fetch_add(1, std::sync::atomic::Ordering::SeqCst);
                    if i >= jobs.len() {
                        *current[w].lock().unwrap() = None;
                        break;
                    }
                    *current[w].lock().unwrap() = Some((i, std::time::Instant::now()));
                    let line = serde_json::to_string(&run_job(&jobs[i])).unwrap();
                    results.lock().unwrap().push((jobs[i].id, line));
                    *current[w].lock().unwrap() = None;
                })
                .unwrap(),
        );
    }
    let mut hung: Vec<usize> = Vec::new();
    loop {
        std::thread::sleep(std::time::Duration::from_millis(50));
        let mut busy = 0;
        for c in current.iter() {
            if let Some((i, t0)) = *c.lock().unwrap() {
                if t0.elapsed().as_secs() > limit_s {
                    if !hung.contains(&i) { hung.push(i); }
                } else {
                    busy += 1;
                }
            }
        }
        let done = results.lock().unwrap().len();
        if done + hung.len() >= n || (busy == 0 && next.load(std::sync::atomic::Ordering::SeqCst) >= n) {
            break;
        }
    }
    let mut lines: Vec<(u64, String)> = results.lock().unwrap().clone();
    for i in &hung {
        let j = &jobs[*i];
        lines.push((j.id, serde_json::to_string(&json!({
            "id": j.id,
            "cfg": {"P": j.cfg.p, "min": j.cfg.min, "max": j.cfg.max, "muts": Vec::<i64>::new(), "mutUnsafe": if j.cfg.mut_unsafe {1} else {0},
                    "rate": 1, "unsafe": if j.cfg.unsafe_ {1} else {0}, "ext": if j.cfg.ext {1} else {0}, "buf": if j.cfg.buf {1} else {0}},
            "mode": if j.mode == "seed" {1} else {2}, "seed": j.seed.to_string(), "input": "", "hasinp": 0, "inp": Vec::<u8>::new(), "consumed": -1,
            "res": 4, "msg": format!("generation did not return within {} s", limit_s), "bytes": Vec::<u8>::new(), "ev": Vec::<Value>::new(),
        })).unwrap()));
    }
    lines.sort_by_key(|(id, _)| *id);
    {
        let mut out = std::io::BufWriter::new(std::fs::File::create(&args[1]).expect("create out"));
        for (_, l) in lines {
            writeln!(out, "{}", l).unwrap();
        }
    }
    if !hung.is_empty() {
        // worker threads are still spinning inside the generator: leave without joining them
        std::process::exit(0);
    }
    for h in handles { let _ = h.join(); }
    0
}
