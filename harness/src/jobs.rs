//! `pfv run-jobs <jobs.json> <out.ndjson> [threads]`
//! Runs whole generations of the real generator with the event recorder on and
//! writes one JSON line per generation (configuration, input, returned bytes, events).

use crate::common::*;
use pickle_fuzzer::verif;
use serde::Deserialize;
use serde_json::{json, Value};
use std::io::Write;
use std::panic::{catch_unwind, AssertUnwindSafe};

#[derive(Debug, Clone, Deserialize, serde::Serialize)]
pub struct Job {
    pub id: u64,
    pub cfg: Cfg,
    pub mode: String,
    #[serde(default)]
    pub seed: u64,
    #[serde(default)]
    pub bkind: String,
    #[serde(default)]
    pub blen: usize,
    #[serde(default)]
    pub bytes: Option<Vec<u8>>,
    #[serde(default)]
    pub heap: bool,
    #[serde(default = "yes")]
    pub rec: bool,
    /// number of generate calls on the same generator before the recorded one (reuse)
    #[serde(default)]
    pub warm: usize,
    /// judged with the depth-only reference machine (passed through to the trace line by the driver)
    #[serde(default)]
    pub deep: u8,
    /// forced opcode choices: (0-based body step, opcode byte)
    #[serde(default)]
    pub force: Vec<(usize, u8)>,
}

fn yes() -> bool {
    true
}

pub fn job_input(job: &Job) -> Vec<u8> {
    match &job.bytes {
        Some(b) => b.clone(),
        None => make_bytes(&job.bkind, job.blen, job.seed),
    }
}

pub fn run_job(job: &Job) -> Value {
    let order = all_ops_sorted();
    let input = if job.mode == "bytes" {
        job_input(job)
    } else {
        Vec::new()
    };
    let outcome = catch_unwind(AssertUnwindSafe(|| {
        let mut g = build_generator(
            &job.cfg,
            if job.mode == "seed" {
                Some(job.seed)
            } else {
                None
            },
        );
        for _ in 0..job.warm {
            let _ = if job.mode == "seed" {
                g.generate()
            } else {
                g.generate_from_arbitrary(&input)
            };
        }
        if job.rec {
            verif::start_recording(job.heap);
            if !job.force.is_empty() {
                verif::set_forces(job.force.iter().filter_map(|(i, b)| op_by_byte(*b).map(|o| (*i, o))).collect());
            }
        }
        let mut consumed: i64 = -1;
        let r = if job.mode == "seed" {
            g.generate()
        } else {
            // same as generate_from_arbitrary(&input), but the harness keeps the Unstructured so
            // that it can report how many input bytes the generation consumed
            let mut u = arbitrary::Unstructured::new(&input);
            let r = {
                let mut src = verif::GenerationSource::Arbitrary(unsafe { &mut *(&mut u as *mut arbitrary::Unstructured) });
                g.verif_generate_with(&mut src)
            };
            consumed = (input.len() - u.len()) as i64;
            r
        };
        let ev = verif::stop_recording();
        (r.map_err(|e| format!("{e}")), ev, consumed)
    }));
    let (res, msg, bytes, ev, consumed) = match outcome {
        Ok((Ok(b), ev, c)) => ("ok", String::new(), b, ev, c),
        Ok((Err(m), ev, c)) => ("err", m, Vec::new(), ev, c),
        Err(p) => {
            let ev = verif::stop_recording();
            let m = p
                .downcast_ref::<String>()
                .cloned()
                .or_else(|| p.downcast_ref::<&str>().map(|s| s.to_string()))
                .unwrap_or_else(|| "panic".into());
            ("panic", m, Vec::new(), ev, -1)
        }
    };
    // the input bytes travel to TLC only where the entropy model applies (no mutators, moderate size)
    let with_inp = job.mode == "bytes" && job.cfg.muts.is_empty() && input.len() <= 4096 && job.warm == 0 && job.force.is_empty();
    let evj: Vec<Value> = ev.iter().map(|e| event_json(e, &order)).collect();
    json!({
        "id": job.id,
        "cfg": {
            "P": job.cfg.p, "min": job.cfg.min, "max": job.cfg.max,
            "muts": job.cfg.muts.iter().map(|m| MUTATOR_NAMES.iter().position(|n| n == m).map(|i| i as i64 + 1).unwrap_or(0)).collect::<Vec<_>>(),
            "mutUnsafe": if job.cfg.mut_unsafe {1} else {0},
            "rate": if job.cfg.rate <= 0.0 {0} else if job.cfg.rate >= 1.0 {2} else {1},
            "unsafe": if job.cfg.unsafe_ {1} else {0},
            "ext": if job.cfg.ext {1} else {0},
            "buf": if job.cfg.buf {1} else {0},
        },
        "mode": if job.mode == "seed" {1} else {2},
        "seed": job.seed.to_string(),
        "input": hex(&input),
        "hasinp": if with_inp {1} else {0},
        "inp": if with_inp { input.clone() } else { Vec::new() },
        "consumed": consumed,
        "res": match res {"ok" => 1, "err" => 2, _ => 3},
        "msg": msg,
        "bytes": bytes,
        "ev": evj,
    })
}

pub fn main(args: &[String]) -> i32 {
    if args.len() < 2 {
        eprintln!("usage: pfv run-jobs <jobs.json> <out.ndjson> [threads]");
        return 2;
    }
    let threads: usize = args.get(2).and_then(|s| s.parse().ok()).unwrap_or(8);
    let text = std::fs::read_to_string(&args[0]).expect("read jobs");
    let jobs: Vec<Job> = serde_json::from_str(&text).expect("parse jobs");
    std::panic::set_hook(Box::new(|_| {}));
    let n = jobs.len();
    let chunks: Vec<Vec<Job>> = (0..threads)
        .map(|t| jobs.iter().skip(t).step_by(threads).cloned().collect())
        .collect();
    let mut handles = Vec::new();
    for chunk in chunks {
        handles.push(
            std::thread::Builder::new()
                .stack_size(std::env::var("PFV_STACK_MB").ok().and_then(|s| s.parse::<usize>().ok()).unwrap_or(256) << 20)
                .spawn(move || {
                    chunk
                        .iter()
                        .map(|j| (j.id, serde_json::to_string(&run_job(j)).unwrap()))
                        .collect::<Vec<_>>()
                })
                .unwrap(),
        );
    }
    let mut lines: Vec<(u64, String)> = Vec::with_capacity(n);
    for h in handles {
        lines.extend(h.join().expect("worker"));
    }
    lines.sort_by_key(|(id, _)| *id);
    let mut out = std::io::BufWriter::new(std::fs::File::create(&args[1]).expect("create out"));
    for (_, l) in lines {
        writeln!(out, "{}", l).unwrap();
    }
    0
}
