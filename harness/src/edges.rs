//! `pfv edges <cfg.json> <out.ndjson>`
//! Systematic enumeration of the REAL generator's decision tree through the
//! forced-choice hook: breadth-first from the empty state, de-duplicated on the
//! projected state (stack kinds + memo kinds), every enabled opcode forced in every
//! visited state (several entropy seeds per opcode so that integer variants and GET
//! keys vary).  One JSON line per distinct edge: the path that reaches the source
//! state (claimed opcode + emitted bytes per step), the forced opcode, the bytes it
//! emitted, the projected state before/after and the enabled set.

use crate::common::*;
use pickle_fuzzer::verif::{self, GenerationSource, OpcodeKind};
use pickle_fuzzer::Generator;
use rand::SeedableRng;
use rand_chacha::ChaCha8Rng;
use serde::Deserialize;
use serde_json::{json, Value};
use std::collections::{HashMap, HashSet, VecDeque};
use std::io::Write;

#[derive(Deserialize, Clone)]
pub struct EdgeCfg {
    pub cfg: Cfg,
    /// states at this depth are still expanded (edges out of them are recorded)
    pub depth: usize,
    pub seeds: Vec<u64>,
    #[serde(default)]
    pub max_states: usize,
    #[serde(default)]
    pub tag: String,
    /// opcodes forced (with seed 1) before the enumeration starts: the BFS root is the state they reach
    #[serde(default)]
    pub prefix: Vec<u8>,
    /// keep outcomes apart whenever the emitted bytes differ (value grid), not only by opcode byte
    #[serde(default)]
    pub full_bytes: bool,
    /// when non-empty, only these opcodes are forced
    #[serde(default)]
    pub only_ops: Vec<u8>,
}

type Proj = (Vec<u8>, Vec<(usize, u8)>);

fn proj(g: &Generator) -> Proj {
    (g.verif_stack_kinds(), g.verif_memo_kinds())
}

/// coarser projection used only to de-duplicate BFS states: scalar variants, bytes
/// variants and callable variants are not told apart by any guard
fn coarse(p: &Proj) -> Proj {
    let c = |k: u8| match k {
        1..=4 => 1,
        5 | 7 => 5,
        13 | 15 => 15,
        x => x,
    };
    (
        p.0.iter().map(|k| c(*k)).collect(),
        p.1.iter().map(|(i, k)| (*i, c(*k))).collect(),
    )
}

#[derive(Clone)]
struct Step {
    op: OpcodeKind,
    seed: u64,
    bytes: Vec<u8>,
}

pub(crate) fn fresh(cfg: &Cfg) -> Generator {
    let mut g = build_generator(cfg, Some(0));
    let mut rng = ChaCha8Rng::seed_from_u64(0);
    let mut src = GenerationSource::Rand(&mut rng);
    g.verif_emit_proto(&mut src);
    g
}

/// special "seeds" select fuzzer-bytes entropy instead of the PRNG: all-0x00, all-0xff, empty input
pub const SRC_ZERO: u64 = u64::MAX;
pub const SRC_FF: u64 = u64::MAX - 1;
pub const SRC_EMPTY: u64 = u64::MAX - 2;
/// SRC_EMPTY - 1 - b = fuzzer input of 256 bytes that are all b (b in 0..=255)
pub const SRC_CONST_LOW: u64 = u64::MAX - 2 - 256;

pub(crate) fn force(g: &mut Generator, op: OpcodeKind, seed: u64) -> Result<Vec<u8>, String> {
    tick(|| format!("forced emission of opcode 0x{:02x} with entropy source {} on stack {:?}", op.as_u8(), seed, g.verif_stack_kinds()));
    let before = g.output.len();
    let r = if seed >= SRC_CONST_LOW {
        let data: Vec<u8> = match seed {
            SRC_ZERO => vec![0u8; 256],
            SRC_FF => vec![0xffu8; 256],
            SRC_EMPTY => Vec::new(),
            // 256 bytes all equal to b: every byte-valued draw of the emitter / mutator takes the value b
            c => vec![(SRC_EMPTY - 1 - c) as u8; 256],
        };
        let mut u = arbitrary::Unstructured::new(&data);
        // the source borrows `u` for its own lifetime parameter: scope it through a raw pointer
        let mut src = GenerationSource::Arbitrary(unsafe { &mut *(&mut u as *mut arbitrary::Unstructured) });
        g.verif_emit(op, &mut src)
    } else {
        let mut rng = ChaCha8Rng::seed_from_u64(seed);
        let mut src = GenerationSource::Rand(&mut rng);
        g.verif_emit(op, &mut src)
    };
    r.map_err(|e| format!("{e}"))?;
    if g.output.len() < before {
        return Err("output shrank".into());
    }
    Ok(g.output[before..].to_vec())
}

fn rebuild(cfg: &Cfg, path: &[Step]) -> Generator {
    let mut g = fresh(cfg);
    for s in path {
        let _ = force(&mut g, s.op, s.seed);
    }
    g
}

fn proj_json(p: &Proj) -> Value {
    json!({"stk": p.0, "memo": p.1.iter().map(|(k, v)| json!([k, v])).collect::<Vec<_>>()})
}

pub fn enumerate(ec: &EdgeCfg, out: &mut dyn Write) -> (usize, usize) {
    let order = all_ops_sorted();
    let cfg = &ec.cfg;
    let mut seen: HashSet<Proj> = HashSet::new();
    let mut queue: VecDeque<Vec<Step>> = VecDeque::new();
    let mut root: Vec<Step> = Vec::new();
    {
        let mut g0 = fresh(cfg);
        for b in &ec.prefix {
            if let Some(op) = op_by_byte(*b) {
                if g0.verif_valid_opcodes().contains(&op) {
                    if let Ok(bytes) = force(&mut g0, op, 1) {
                        root.push(Step { op, seed: 1, bytes });
                    }
                }
            }
        }
        seen.insert(coarse(&proj(&g0)));
    }
    let root_len = root.len();
    queue.push_back(root);
    let (mut nstates, mut nedges) = (0usize, 0usize);
    let cfgj = json!({"P": cfg.p, "ext": if cfg.ext {1} else {0}, "buf": if cfg.buf {1} else {0},
                      "unsafe": if cfg.unsafe_ {1} else {0}, "min": cfg.min, "max": cfg.max});
    while let Some(path) = queue.pop_front() {
        if ec.max_states > 0 && nstates >= ec.max_states {
            break;
        }
        nstates += 1;
        let g = rebuild(cfg, &path);
        let pre = proj(&g);
        let enabled = g.verif_valid_opcodes();
        let mask = enabled_mask(&enabled, &order);
        let pathj: Vec<Value> = path
            .iter()
            .map(|s| json!([s.op.as_u8(), s.bytes, s.seed.to_string()]))
            .collect();
        let mut int_outcomes: HashMap<(Vec<u8>, Proj), u64> = HashMap::new();
        for op in enabled {
            if !ec.only_ops.is_empty() && !ec.only_ops.contains(&op.as_u8()) { continue; }
            let is_int = matches!(
                op,
                OpcodeKind::Int | OpcodeKind::Long | OpcodeKind::Long1 | OpcodeKind::Long4
                    | OpcodeKind::BinInt | OpcodeKind::BinInt1 | OpcodeKind::BinInt2
            );
            let mut own: HashMap<(Vec<u8>, Proj), u64> = HashMap::new();
            // the integer family shares one emitter: de-duplicate its outcomes across claimed kinds
            let outcomes = if is_int { &mut int_outcomes } else { &mut own };
            for &seed in &ec.seeds {
                let mut g2 = rebuild(cfg, &path);
                let res = std::panic::catch_unwind(std::panic::AssertUnwindSafe(|| force(&mut g2, op, seed)));
                let (bytes, post, err) = match res {
                    Ok(Ok(b)) => (b, proj(&g2), String::new()),
                    Ok(Err(e)) => (Vec::new(), proj(&g2), e),
                    Err(_) => (Vec::new(), pre.clone(), "panic".to_string()),
                };
                // outcomes that differ only in argument payload are the same edge
                let head: Vec<u8> = bytes.iter().take(1).cloned().collect();
                let key = (
                    if ec.full_bytes || seed >= SRC_CONST_LOW || matches!(op, OpcodeKind::Get | OpcodeKind::BinGet | OpcodeKind::LongBinGet) { bytes.clone() } else { head },
                    post.clone(),
                );
                if outcomes.contains_key(&key) {
                    continue;
                }
                outcomes.insert(key, seed);
                nedges += 1;
                let line = json!({
                    "cfg": cfgj, "path": pathj, "op": op.as_u8(), "seed": seed.to_string(), "bytes": bytes,
                    "muts": cfg.muts, "rate": cfg.rate,
                    "pre": proj_json(&pre), "post": proj_json(&post), "en": mask, "err": err,
                    "depth": path.len() - root_len,
                });
                writeln!(out, "{}", line).unwrap();
                if path.len() - root_len < ec.depth && !seen.contains(&coarse(&post)) {
                    seen.insert(coarse(&post));
                    let mut p2 = path.clone();
                    p2.push(Step { op, seed, bytes });
                    queue.push_back(p2);
                }
            }
        }
    }
    let _ = verif::is_recording();
    (nstates, nedges)
}

pub fn main(args: &[String]) -> i32 {
    if args.len() < 2 {
        eprintln!("usage: pfv edges <cfgs.json> <out-prefix>");
        return 2;
    }
    let text = std::fs::read_to_string(&args[0]).expect("read cfg");
    let cfgs: Vec<EdgeCfg> = serde_json::from_str(&text).expect("parse cfg");
    std::panic::set_hook(Box::new(|_| {}));
    let mut handles = Vec::new();
    for (i, ec) in cfgs.into_iter().enumerate() {
        let path = format!("{}{}.ndjson", args[1], i);
        handles.push(std::thread::spawn(move || {
            let mut f = std::io::BufWriter::new(std::fs::File::create(&path).expect("create"));
            let (s, e) = enumerate(&ec, &mut f);
            (path, ec.tag.clone(), s, e)
        }));
    }
    let mut summary = Vec::new();
    for h in handles {
        let (p, tag, s, e) = h.join().expect("worker");
        summary.push(json!({"file": p, "tag": tag, "states": s, "edges": e}));
    }
    println!("{}", serde_json::to_string(&summary).unwrap());
    0
}

/// `pfv replay-paths <paths.json> <out.ndjson>`: force model-generated opcode paths
/// through the real generator; every step must be in the implementation's enabled set
pub fn replay_paths(args: &[String]) -> i32 {
    #[derive(Deserialize)]
    struct PathJob { id: u64, cfg: Cfg, path: Vec<u8> }
    let jobs: Vec<PathJob> = serde_json::from_str(&std::fs::read_to_string(&args[0]).expect("read")).expect("parse");
    std::panic::set_hook(Box::new(|_| {}));
    let mut out = std::io::BufWriter::new(std::fs::File::create(&args[1]).expect("create"));
    for j in jobs {
        let mut g = fresh(&j.cfg);
        let mut failed_at: i64 = 0;
        let mut emitted: Vec<u8> = Vec::new();
        let mut states: Vec<Value> = Vec::new();
        for (k, b) in j.path.iter().enumerate() {
            let Some(op) = op_by_byte(*b) else { failed_at = k as i64 + 1; break; };
            if !g.verif_valid_opcodes().contains(&op) {
                failed_at = k as i64 + 1;
                break;
            }
            match force(&mut g, op, 7 + k as u64) {
                Ok(bytes) => { emitted.push(bytes.first().copied().unwrap_or(0)); }
                Err(_) => { failed_at = k as i64 + 1; break; }
            }
            states.push(proj_json(&proj(&g)));
        }
        writeln!(out, "{}", json!({"id": j.id, "failed_at": failed_at, "emitted": emitted, "states": states})).unwrap();
    }
    0
}

// ---------------------------------------------------------------------------------------
/// `pfv guards <spec.json> <out-prefix>`: exhaustive comparison of the implementation's
/// enabled sets with the model's guard table (GuardTable.tla rows) over every abstract
/// stack up to the table's depth.  Each state is CONSTRUCTED in the real generator by one
/// canonical opcode recipe per kind.  Writes mismatches and, for every opcode the
/// implementation enables beyond the model, forced-emission edges for TraceEdges.
#[derive(Deserialize)]
struct GuardSpec {
    cfg: Cfg,
    table: String,
    /// memo prefix: 0 = empty memo, 1 = one Scalar entry at key 0
    #[serde(default)]
    memo_one: bool,
    seeds: Vec<u64>,
    tag: String,
    /// states whose stack is at most this deep get EVERY enabled opcode forced (first seed),
    /// not only the opcodes on which implementation and model disagree; 0 = off
    #[serde(default)]
    all_edges_depth: usize,
    /// 0 = empty containers, 1 = non-empty containers in the construction recipes
    #[serde(default)]
    variant: u8,
}

fn abs_kind(k: u8) -> u8 {
    match k { 0 => 0, 1..=4 => 1, 5 | 7 => 2, 6 => 3, 8 => 4, 9 => 5, 10 => 6, 11 => 7, 12 => 8, 13 | 15 => 9, 14 => 10, _ => 11 }
}

/// canonical opcode recipe for one slot of kind `kind`; variant 1 builds NON-EMPTY containers
fn recipe(kind: u8, p: usize, variant: u8) -> Option<Vec<u8>> {
    if variant == 1 {
        let tuple1: Vec<u8> = if p >= 2 { vec![0x4e, 0x85] } else { vec![0x28, 0x4e, 0x74] };
        match kind {
            4 => return Some(if p >= 1 { vec![0x5d, 0x4e, 0x61] } else { vec![0x28, 0x4e, 0x6c] }),
            5 => return Some(tuple1),
            6 => return Some(if p >= 1 { vec![0x7d, 0x4e, 0x4e, 0x73] } else { vec![0x28, 0x4e, 0x4e, 0x64] }),
            7 => return if p >= 4 { Some(vec![0x8f, 0x28, 0x4e, 0x90]) } else { None },
            8 => return if p >= 4 { Some(vec![0x28, 0x4e, 0x91]) } else { None },
            10 => { let mut v = vec![0x63]; v.extend(tuple1); v.push(0x52); return Some(v); }
            _ => {}
        }
    }
    let tuple: Vec<u8> = if p >= 1 { vec![0x29] } else { vec![0x28, 0x74] };
    Some(match kind {
        0 => vec![0x28],
        1 => vec![0x4e],
        2 => if p >= 3 { vec![0x42] } else if p >= 1 { vec![0x54] } else { return None },
        3 => vec![0x56],
        4 => if p >= 1 { vec![0x5d] } else { vec![0x28, 0x6c] },
        5 => tuple,
        6 => if p >= 1 { vec![0x7d] } else { vec![0x28, 0x4e, 0x4e, 0x64] },
        7 => if p >= 4 { vec![0x8f] } else { return None },
        8 => if p >= 4 { vec![0x28, 0x91] } else { return None },
        9 => vec![0x63],
        10 => { let mut v = vec![0x63]; v.extend(tuple); v.push(0x52); v }
        _ => return None,
    })
}

pub fn guards(args: &[String]) -> i32 {
    let specs: Vec<GuardSpec> = serde_json::from_str(&std::fs::read_to_string(&args[0]).expect("read")).expect("parse");
    std::panic::set_hook(Box::new(|_| {}));
    let order = all_ops_sorted();
    let mut handles = Vec::new();
    for (si, gs) in specs.into_iter().enumerate() {
        let order = order.clone();
        let outp = format!("{}{}.ndjson", args[1], si);
        handles.push(std::thread::spawn(move || {
            let mut out = std::io::BufWriter::new(std::fs::File::create(&outp).expect("create"));
            let text = std::fs::read_to_string(&gs.table).expect("table");
            let (mut rows, mut compared, mut skipped, mut mismatched, mut edges) = (0usize, 0usize, 0usize, 0usize, 0usize);
            let mut mism: Vec<Value> = Vec::new();
            let cfgj = json!({"P": gs.cfg.p, "ext": if gs.cfg.ext {1} else {0}, "buf": if gs.cfg.buf {1} else {0},
                              "unsafe": if gs.cfg.unsafe_ {1} else {0}, "min": 0, "max": 0});
            for line in text.lines() {
                if !line.starts_with("<<\"ROW\"") { continue; }
                rows += 1;
                // <<"ROW", <<k, k, ...>>, m1, m2, m3>>
                let inner = &line[line.find(',').unwrap() + 1..line.rfind(">>").unwrap()];
                let close = inner.find(">>").unwrap();
                let stk: Vec<u8> = inner[inner.find("<<").unwrap() + 2..close].split(',').filter_map(|x| x.trim().parse().ok()).collect();
                let masks: Vec<u32> = inner[close + 2..].split(',').filter_map(|x| x.trim().parse().ok()).collect();
                if masks.len() != 3 { continue; }
                // construct the state
                let mut path: Vec<Step> = Vec::new();
                let mut g = fresh(&gs.cfg);
                let mut ok = true;
                let mut plan: Vec<u8> = Vec::new();
                if gs.memo_one { plan.extend([0x4e, 0x70, 0x30]); }
                for k in &stk {
                    match recipe(*k, gs.cfg.p, gs.variant) { Some(r) => plan.extend(r), None => { ok = false; break; } }
                }
                if ok {
                    for b in &plan {
                        let op = op_by_byte(*b).unwrap();
                        if !g.verif_valid_opcodes().contains(&op) { ok = false; break; }
                        match force(&mut g, op, 1) { Ok(bytes) => path.push(Step { op, seed: 1, bytes }), Err(_) => { ok = false; break; } }
                    }
                }
                let pre = proj(&g);
                if !ok || pre.0.iter().map(|k| abs_kind(*k)).collect::<Vec<u8>>() != stk { skipped += 1; continue; }
                compared += 1;
                let enabled = g.verif_valid_opcodes();
                let m = enabled_mask(&enabled, &order);
                let same = m[0] == masks[0] && m[1] == masks[1] && m[2] == masks[2];
                let all_here = gs.all_edges_depth > 0 && stk.len() <= gs.all_edges_depth;
                if same && !all_here { continue; }
                let bit = |mm: &[u32], i: usize| (mm[i / 24] >> (i % 24)) & 1 == 1;
                let impl_only: Vec<OpcodeKind> = (0..order.len()).filter(|i| bit(&m, *i) && !bit(&masks, *i)).map(|i| order[i]).collect();
                if !same {
                    mismatched += 1;
                    let model_only: Vec<u8> = (0..order.len()).filter(|i| !bit(&m, *i) && bit(&masks, *i)).map(|i| order[i].as_u8()).collect();
                    if mism.len() < 50 {
                        mism.push(json!({"stk": stk, "impl_only": impl_only.iter().map(|o| o.as_u8()).collect::<Vec<u8>>(), "model_only": model_only}));
                    }
                }
                let pathj: Vec<Value> = path.iter().map(|s| json!([s.op.as_u8(), s.bytes, s.seed.to_string()])).collect();
                let to_force: Vec<OpcodeKind> = if all_here { enabled.clone() } else { impl_only.clone() };
                for op in to_force {
                    let every_seed = impl_only.contains(&op);
                    for &seed in &gs.seeds {
                        if !every_seed && seed != gs.seeds[0] { break; }
                        if every_seed && edges >= 3000 && !all_here { break; }
                        let mut g2 = rebuild(&gs.cfg, &path);
                        let res = std::panic::catch_unwind(std::panic::AssertUnwindSafe(|| force(&mut g2, op, seed)));
                        let (bytes, post, err) = match res {
                            Ok(Ok(b)) => (b, proj(&g2), String::new()),
                            Ok(Err(e)) => (Vec::new(), proj(&g2), e),
                            Err(_) => (Vec::new(), pre.clone(), "panic".to_string()),
                        };
                        edges += 1;
                        writeln!(out, "{}", json!({"cfg": cfgj, "path": pathj, "op": op.as_u8(), "seed": seed.to_string(), "bytes": bytes,
                            "pre": proj_json(&pre), "post": proj_json(&post), "en": m, "err": err, "depth": path.len()})).unwrap();
                        // follow the forced emission through the collapse phase and STOP: one edge per tail opcode
                        if err.is_empty() && seed == gs.seeds[0] && (every_seed || stk.len() <= 1) {
                            let mut tail_path = pathj.clone();
                            tail_path.push(json!([op.as_u8(), bytes]));
                            let before_len = g2.output.len();
                            verif::start_recording(false);
                            let _ = std::panic::catch_unwind(std::panic::AssertUnwindSafe(|| { g2.verif_cleanup(); g2.verif_emit_stop(); }));
                            let evs = verif::stop_recording();
                            let mut cur: Vec<u8> = post.0.clone();
                            let mut prev_len = before_len;
                            for e in &evs {
                                let Some(eop) = e.op else { continue };
                                if e.out_len <= prev_len || e.out_len > g2.output.len() { continue; }
                                let tb = g2.output[prev_len..e.out_len].to_vec();
                                prev_len = e.out_len;
                                let pre_t: Proj = (cur.clone(), post.1.clone());
                                // the recorder starts from an empty view: its first event reports the whole stack
                                cur.truncate(e.kept.min(cur.len()));
                                if e.kept == 0 && e.pushed.len() >= cur.len() { cur = e.pushed.clone(); } else { cur.extend_from_slice(&e.pushed); }
                                let post_t: Proj = (cur.clone(), post.1.clone());
                                let en_t = enabled_mask(&[], &order);
                                edges += 1;
                                writeln!(out, "{}", json!({"cfg": cfgj, "path": tail_path, "op": eop.as_u8(), "seed": "0", "bytes": tb,
                                    "pre": proj_json(&pre_t), "post": proj_json(&post_t), "en": en_t, "err": "", "depth": tail_path.len(), "tail": 1})).unwrap();
                                tail_path.push(json!([eop.as_u8(), tb]));
                            }
                        }
                    }
                }
            }
            json!({"file": outp, "tag": gs.tag, "rows": rows, "compared": compared, "unconstructible": skipped,
                   "mismatched": mismatched, "edges": edges, "mismatches": mism})
        }));
    }
    let summary: Vec<Value> = handles.into_iter().map(|h| h.join().expect("worker")).collect();
    println!("{}", serde_json::to_string(&summary).unwrap());
    0
}


/// `pfv edge-one <edge.json> <out.ndjson>`: re-execute one recorded edge (path steps with their
/// seeds, then the forced opcode with its seed) on the real generator and write the fresh edge record
pub fn edge_one(args: &[String]) -> i32 {
    let e: Value = serde_json::from_str(&std::fs::read_to_string(&args[0]).expect("read")).expect("parse");
    let c = &e["cfg"];
    let cfg = Cfg { p: c["P"].as_u64().unwrap_or(0) as usize, min: 0, max: 0, muts: e.get("muts").and_then(|m| serde_json::from_value(m.clone()).ok()).unwrap_or_default(),
        mut_unsafe: c["unsafe"].as_u64() == Some(1), rate: e.get("rate").and_then(|r| r.as_f64()).unwrap_or(0.1), rate_raw: false, rate_special: String::new(),
        unsafe_: c["unsafe"].as_u64() == Some(1), ext: c["ext"].as_u64() == Some(1), buf: c["buf"].as_u64() == Some(1), bufsize: None, alt_builder: false };
    std::panic::set_hook(Box::new(|_| {}));
    let order = all_ops_sorted();
    let mut g = fresh(&cfg);
    let mut pathj: Vec<Value> = Vec::new();
    for st in e["path"].as_array().cloned().unwrap_or_default() {
        let b = st[0].as_u64().unwrap_or(0) as u8;
        let seed: u64 = st.get(2).and_then(|x| x.as_str()).and_then(|x| x.parse().ok()).unwrap_or(1);
        let Some(op) = op_by_byte(b) else { continue };
        let bytes = force(&mut g, op, seed).unwrap_or_default();
        pathj.push(json!([b, bytes, seed.to_string()]));
    }
    let pre = proj(&g);
    let m = enabled_mask(&g.verif_valid_opcodes(), &order);
    let opb = e["op"].as_u64().unwrap_or(0) as u8;
    let seed: u64 = e["seed"].as_str().and_then(|x| x.parse().ok()).unwrap_or(1);
    let (bytes, err) = match op_by_byte(opb) {
        Some(op) if g.verif_valid_opcodes().contains(&op) => match force(&mut g, op, seed) { Ok(b) => (b, String::new()), Err(x) => (Vec::new(), x) },
        _ => (Vec::new(), "opcode no longer enabled in this state".to_string()),
    };
    let post = proj(&g);
    let mut out = std::fs::File::create(&args[1]).expect("create");
    writeln!(out, "{}", json!({"cfg": e["cfg"], "path": pathj, "op": opb, "seed": seed.to_string(), "bytes": bytes,
        "pre": proj_json(&pre), "post": proj_json(&post), "en": m, "err": err, "depth": pathj.len()})).unwrap();
    0
}


// ---------------------------------------------------------------------------------------
/// forced emission with an explicit fuzzer-bytes entropy source
fn force_data(g: &mut Generator, op: OpcodeKind, data: &[u8]) -> Result<Vec<u8>, String> {
    tick(|| format!("forced emission of opcode 0x{:02x} with explicit entropy bytes", op.as_u8()));
    let before = g.output.len();
    let mut u = arbitrary::Unstructured::new(data);
    let mut src = GenerationSource::Arbitrary(unsafe { &mut *(&mut u as *mut arbitrary::Unstructured) });
    g.verif_emit(op, &mut src).map_err(|e| format!("{e}"))?;
    if g.output.len() < before { return Err("output shrank".into()); }
    Ok(g.output[before..].to_vec())
}

/// `pfv globals <spec.json> <out.ndjson>`: value sweep of the GLOBAL argument.  Every two-byte entropy
/// value (hence every line of the embedded module table) is fed to a forced GLOBAL, followed by an
/// empty argument tuple and REDUCE / NEWOBJ / OBJ; outcomes are grouped by the simulated state they
/// reach.  For every DISTINCT outcome one witness is written as TraceEdges records: the constructing
/// step itself, and every opcode the implementation enables after one more NONE on top.
pub fn globals(args: &[String]) -> i32 {
    #[derive(Deserialize)]
    struct Spec { protocols: Vec<usize>, step: usize }
    let spec: Spec = serde_json::from_str(&std::fs::read_to_string(&args[0]).expect("read")).expect("parse");
    std::panic::set_hook(Box::new(|_| {}));
    let order = all_ops_sorted();
    let mut out = std::io::BufWriter::new(std::fs::File::create(&args[1]).expect("create"));
    let mut summary = Vec::new();
    for &p in &spec.protocols {
        let cfg = Cfg { p, min: 0, max: 0, muts: vec![], mut_unsafe: false, rate: 0.1, rate_raw: false, rate_special: String::new(),
                        unsafe_: false, ext: false, buf: false, bufsize: None, alt_builder: false };
        let cfgj = json!({"P": p, "ext": 0, "buf": 0, "unsafe": 0, "min": 0, "max": 0});
        let tuple: Vec<u8> = if p >= 1 { vec![0x29] } else { vec![0x28, 0x74] };
        let builders: Vec<u8> = if p >= 2 { vec![0x52, 0x81] } else { vec![0x52] };
        for &b in &builders {
            let mut classes: HashMap<Proj, (usize, Vec<Value>, Proj, [u32; 3], Vec<u8>)> = HashMap::new();
            let mut tried = 0usize;
            let mut i = 0usize;
            while i < 65536 {
                let data = vec![(i >> 8) as u8, (i & 255) as u8, 0, 0, 0, 0, 0, 0];
                let mut g = fresh(&cfg);
                let mut pathj: Vec<Value> = Vec::new();
                let mut ok = true;
                match force_data(&mut g, OpcodeKind::Global, &data) {
                    Ok(bytes) => pathj.push(json!([0x63, bytes, "0"])),
                    Err(_) => ok = false,
                }
                for tb in &tuple {
                    if !ok { break; }
                    match op_by_byte(*tb).map(|o| force(&mut g, o, 1)) { Some(Ok(bytes)) => pathj.push(json!([tb, bytes, "1"])), _ => ok = false }
                }
                if ok {
                    let pre = proj(&g);
                    let en = enabled_mask(&g.verif_valid_opcodes(), &order);
                    if let Some(Ok(bytes)) = op_by_byte(b).map(|o| force(&mut g, o, 1)) {
                        tried += 1;
                        let post = proj(&g);
                        classes.entry(coarse(&post)).or_insert((i, pathj.clone(), pre, en, bytes));
                    }
                }
                i += spec.step.max(1);
            }
            for (_cls, (i, pathj, pre, en, bytes)) in classes.iter() {
                // re-build the witness and write its edges
                let data = vec![(*i >> 8) as u8, (*i & 255) as u8, 0, 0, 0, 0, 0, 0];
                let mut g = fresh(&cfg);
                let _ = force_data(&mut g, OpcodeKind::Global, &data);
                for tb in &tuple { let _ = op_by_byte(*tb).map(|o| force(&mut g, o, 1)); }
                let _ = op_by_byte(b).map(|o| force(&mut g, o, 1));
                let post = proj(&g);
                writeln!(out, "{}", json!({"cfg": cfgj, "path": pathj, "op": b, "seed": "1", "bytes": bytes, "muts": [], "rate": 0.1,
                    "pre": proj_json(pre), "post": proj_json(&post), "en": en, "err": "", "depth": pathj.len()})).unwrap();
                let mut path2 = pathj.clone();
                path2.push(json!([b, bytes, "1"]));
                if let Ok(nb) = force(&mut g, OpcodeKind::None, 1) {
                    path2.push(json!([0x4e, nb, "1"]));
                    let pre2 = proj(&g);
                    let enabled = g.verif_valid_opcodes();
                    let en2 = enabled_mask(&enabled, &order);
                    for op in enabled {
                        let mut g2 = fresh(&cfg);
                        let _ = force_data(&mut g2, OpcodeKind::Global, &data);
                        for tb in &tuple { let _ = op_by_byte(*tb).map(|o| force(&mut g2, o, 1)); }
                        let _ = op_by_byte(b).map(|o| force(&mut g2, o, 1));
                        let _ = force(&mut g2, OpcodeKind::None, 1);
                        let res = std::panic::catch_unwind(std::panic::AssertUnwindSafe(|| force(&mut g2, op, 1)));
                        let (eb, post2, err) = match res {
                            Ok(Ok(x)) => (x, proj(&g2), String::new()),
                            Ok(Err(e)) => (Vec::new(), proj(&g2), e),
                            Err(_) => (Vec::new(), pre2.clone(), "panic".to_string()),
                        };
                        writeln!(out, "{}", json!({"cfg": cfgj, "path": path2, "op": op.as_u8(), "seed": "1", "bytes": eb, "muts": [], "rate": 0.1,
                            "pre": proj_json(&pre2), "post": proj_json(&post2), "en": en2, "err": err, "depth": path2.len()})).unwrap();
                    }
                }
            }
            summary.push(json!({"P": p, "builder": b, "values_tried": tried, "distinct_outcomes": classes.len()}));
        }
        // text sweep: every text-valued opcode of the protocol forced from the empty stack with texts whose
        // CONTENT could matter to an emitter (escape-like sequences, quotes, format directives, digits)
        let texts: [&str; 18] = ["\\u0041", "\\U0001F600", "\\x41", "\\n", "\\", "'", "\"", "\\'", "%s%n", "{}", "0", "-1", "1e5", "nan", "True",
                                 "a b", "__reduce__", "\\u00e9\\u00e9"];
        // the emitters draw characters as indices into their own table: learn the table by emitting one character per index
        let mut index_of: HashMap<u8, u8> = HashMap::new();
        for idx in 0..=255u8 {
            let mut g = fresh(&cfg);
            if let Ok(b) = force_data(&mut g, OpcodeKind::Unicode, &[1, idx, 0, 0, 0, 0]) {
                if b.len() == 3 && b[0] == 0x56 { index_of.entry(b[1]).or_insert(idx); }
                // protocol 0 doubles the backslash
                if b.len() == 4 && b[0] == 0x56 && b[1] == 0x5c && b[2] == 0x5c { index_of.entry(0x5c).or_insert(idx); }
            }
        }
        let g0 = fresh(&cfg);
        let en0 = enabled_mask(&g0.verif_valid_opcodes(), &order);
        let pre0 = proj(&g0);
        let mut ntext = 0usize;
        for op in g0.verif_valid_opcodes() {
            if !matches!(op, OpcodeKind::String | OpcodeKind::Unicode | OpcodeKind::BinUnicode | OpcodeKind::ShortBinUnicode
                | OpcodeKind::BinUnicode8 | OpcodeKind::BinString | OpcodeKind::ShortBinString) { continue; }
            for t in texts.iter() {
                let t = t.replace("\\\\", "\\");
                let mut data: Vec<u8> = vec![t.len() as u8];
                data.extend(t.bytes().map(|c| index_of.get(&c).copied().unwrap_or(0)));
                data.extend_from_slice(&[0u8; 16]);
                let mut g = fresh(&cfg);
                let res = std::panic::catch_unwind(std::panic::AssertUnwindSafe(|| force_data(&mut g, op, &data)));
                let (bytes, post, err) = match res {
                    Ok(Ok(b)) => (b, proj(&g), String::new()),
                    Ok(Err(e)) => (Vec::new(), proj(&g), e),
                    Err(_) => (Vec::new(), pre0.clone(), "panic".to_string()),
                };
                ntext += 1;
                writeln!(out, "{}", json!({"cfg": cfgj, "path": [], "op": op.as_u8(), "seed": "0", "bytes": bytes, "muts": [], "rate": 0.1,
                    "pre": proj_json(&pre0), "post": proj_json(&post), "en": en0, "err": err, "depth": 0})).unwrap();
            }
        }
        summary.push(json!({"P": p, "builder": 0, "values_tried": ntext, "distinct_outcomes": 0}));
    }
    out.flush().unwrap();
    println!("{}", serde_json::to_string(&summary).unwrap());
    0
}
