//! shared pieces: configuration records, generator construction, event encoding

use pickle_fuzzer::verif::{Event, OpcodeKind, PICKLE_OPCODES};
use pickle_fuzzer::{Generator, MutatorKind, Version};
use serde::{Deserialize, Serialize};
use serde_json::{json, Value};

#[derive(Debug, Clone, Serialize, Deserialize)]
pub struct Cfg {
    #[serde(rename = "P")]
    pub p: usize,
    pub min: usize,
    pub max: usize,
    /// mutator names in registration order
    #[serde(default)]
    pub muts: Vec<String>,
    /// the flag mutators are created with (CLI: same as `unsafe`)
    #[serde(default)]
    pub mut_unsafe: bool,
    #[serde(default = "default_rate")]
    pub rate: f64,
    /// set the public field directly instead of the clamping builder
    #[serde(default)]
    pub rate_raw: bool,
    /// non-finite rates cannot travel in JSON: "nan", "inf", "-inf" (implies rate_raw)
    #[serde(default)]
    pub rate_special: String,
    #[serde(default, rename = "unsafe")]
    pub unsafe_: bool,
    #[serde(default)]
    pub ext: bool,
    #[serde(default)]
    pub buf: bool,
    /// `with_buffer_size(n)` (documented as a size limit; inert in the pinned tree)
    #[serde(default)]
    pub bufsize: Option<usize>,
    /// build through the one-at-a-time builder methods (with_min_opcodes / with_max_opcodes /
    /// with_mutator) instead of with_opcode_range / with_mutators
    #[serde(default)]
    pub alt_builder: bool,
}

fn default_rate() -> f64 {
    0.1
}

pub fn mutator_kind(name: &str) -> Option<MutatorKind> {
    Some(match name {
        "bitflip" => MutatorKind::Bitflip,
        "boundary" => MutatorKind::Boundary,
        "offbyone" => MutatorKind::Offbyone,
        "stringlen" => MutatorKind::Stringlen,
        "character" => MutatorKind::Character,
        "memoindex" => MutatorKind::Memoindex,
        "typeconfusion" => MutatorKind::Typeconfusion,
        _ => return None,
    })
}

pub const MUTATOR_NAMES: [&str; 7] = [
    "bitflip",
    "boundary",
    "offbyone",
    "stringlen",
    "character",
    "memoindex",
    "typeconfusion",
];

pub fn build_generator(cfg: &Cfg, seed: Option<u64>) -> Generator {
    let version = Version::try_from(cfg.p).expect("protocol 0..5");
    let mut g = if cfg.alt_builder {
        // builder history: every option is first set to something else, then to its final value
        // through the one-at-a-time methods; the LAST call per option is the configuration
        Generator::new(version)
            .with_opcode_range(cfg.max + 7, cfg.min + 3)
            .with_mutation_rate(1.0 - cfg.rate.clamp(0.0, 1.0))
            .with_unsafe_mutations(!cfg.unsafe_)
            .with_ext_opcodes(!cfg.ext)
            .with_buffer_opcodes(!cfg.buf)
            .with_mutators(vec![mutator_kind("boundary").unwrap().create(!cfg.mut_unsafe)])
            .with_mutators(Vec::new())
            .with_max_opcodes(cfg.max)
            .with_min_opcodes(cfg.min)
    } else {
        Generator::new(version).with_opcode_range(cfg.min, cfg.max)
    };
    if let Some(s) = seed {
        g = g.with_seed(s);
    }
    if let Some(n) = cfg.bufsize {
        g = g.with_buffer_size(n);
    }
    if !cfg.muts.is_empty() {
        if cfg.alt_builder {
            for n in &cfg.muts {
                g = g.with_mutator(mutator_kind(n).expect("mutator name").create(cfg.mut_unsafe));
            }
        } else {
            let ms = cfg
                .muts
                .iter()
                .map(|n| mutator_kind(n).expect("mutator name").create(cfg.mut_unsafe))
                .collect();
            g = g.with_mutators(ms);
        }
    }
    if !cfg.rate_special.is_empty() {
        g.mutation_rate = match cfg.rate_special.as_str() {
            "nan" => f64::NAN,
            "inf" => f64::INFINITY,
            _ => f64::NEG_INFINITY,
        };
    } else if cfg.rate_raw {
        g.mutation_rate = cfg.rate;
    } else {
        g = g.with_mutation_rate(cfg.rate);
    }
    g = g
        .with_unsafe_mutations(cfg.unsafe_)
        .with_ext_opcodes(cfg.ext)
        .with_buffer_opcodes(cfg.buf);
    g
}

/// all opcode kinds sorted by byte value (position = bit index of the enabled mask)
pub fn all_ops_sorted() -> Vec<OpcodeKind> {
    let mut v: Vec<OpcodeKind> = PICKLE_OPCODES.get(&5u8).expect("table 5").to_vec();
    v.sort_by_key(|k| k.as_u8());
    v.dedup_by_key(|k| k.as_u8());
    v
}

pub fn op_by_byte(b: u8) -> Option<OpcodeKind> {
    all_ops_sorted().into_iter().find(|k| k.as_u8() == b)
}

pub fn enabled_mask(ops: &[OpcodeKind], order: &[OpcodeKind]) -> [u32; 3] {
    let mut m = [0u32; 3];
    for op in ops {
        if let Some(i) = order.iter().position(|k| k == op) {
            m[i / 24] |= 1 << (i % 24);
        }
    }
    m
}

pub fn phase_code(p: &str) -> u8 {
    match p {
        "begin" => 1,
        "proto" => 2,
        "reserve" => 3,
        "target" => 4,
        "body" => 5,
        "close" => 6,
        "collapse" => 7,
        "pad" => 8,
        "fix" => 9,
        "stop" => 10,
        "patch" => 11,
        _ => 0,
    }
}

pub fn value_kind_code(k: &str) -> u8 {
    match k {
        "int" => 1,
        "long" => 2,
        "float" => 3,
        "string" => 4,
        "bytes" => 5,
        "memo" => 6,
        _ => 0,
    }
}

pub fn event_json(e: &Event, order: &[OpcodeKind]) -> Value {
    let (hen, en) = match &e.enabled {
        Some(v) => (1, enabled_mask(v, order)),
        None => (0, [0, 0, 0]),
    };
    json!({
        "ph": phase_code(e.phase),
        "op": e.op.map(|o| o.as_u8() as i64).unwrap_or(-1),
        "len": e.out_len,
        "kept": e.kept,
        "push": e.pushed,
        "ids": e.pushed_ids,
        "memo": e.memo_delta.iter().map(|(k, v)| json!([k, v])).collect::<Vec<_>>(),
        "ml": e.memo_len,
        "pe": if e.proto_emitted { 1 } else { 0 },
        "T": e.target.map(|t| t as i64).unwrap_or(-1),
        "hen": hen,
        "en": en,
        "mu": e.mutations.iter().map(|(k, i)| json!([value_kind_code(k), i])).collect::<Vec<_>>(),
        "rw": e.rewrites,
        "rwn": if e.rewritten { 1 } else { 0 },
        "cyc": if e.cycle { 1 } else { 0 },
    })
}

/// deterministic byte strings for the fuzzer-bytes mode
pub fn make_bytes(kind: &str, len: usize, seed: u64) -> Vec<u8> {
    use rand::{RngCore, SeedableRng};
    match kind {
        "zero" => vec![0u8; len],
        "ff" => vec![0xffu8; len],
        "empty" => Vec::new(),
        "ramp" => (0..len).map(|i| (i * 37 + seed as usize) as u8).collect(),
        _ => {
            let mut rng = rand_chacha::ChaCha8Rng::seed_from_u64(seed ^ 0x5eed_b17e5);
            let mut v = vec![0u8; len];
            rng.fill_bytes(&mut v);
            v
        }
    }
}

pub fn fnv64(data: &[u8]) -> u64 {
    let mut h: u64 = 0xcbf29ce484222325;
    for b in data {
        h ^= *b as u64;
        h = h.wrapping_mul(0x100000001b3);
    }
    h
}

pub fn hex(data: &[u8]) -> String {
    let mut s = String::with_capacity(data.len() * 2);
    for b in data {
        s.push_str(&format!("{:02x}", b));
    }
    s
}


// ---------------------------------------------------------------------------
// watchdog: every unit of work calls `tick`; when nothing ticks for PFV_WATCHDOG_S seconds
// (default 600) the process names the unit in flight on stdout and exits with code 4, so that a
// call into the code under test that never returns is reported instead of stalling a check
pub static TICKS: std::sync::atomic::AtomicU64 = std::sync::atomic::AtomicU64::new(0);
pub static IN_FLIGHT: std::sync::Mutex<String> = std::sync::Mutex::new(String::new());

pub fn tick(desc: impl FnOnce() -> String) {
    TICKS.fetch_add(1, std::sync::atomic::Ordering::Relaxed);
    if let Ok(mut g) = IN_FLIGHT.try_lock() {
        *g = desc();
    }
}

pub fn start_watchdog() {
    let limit: u64 = std::env::var("PFV_WATCHDOG_S").ok().and_then(|s| s.parse().ok()).unwrap_or(600);
    std::thread::spawn(move || {
        let (mut last, mut stuck) = (0u64, 0u64);
        loop {
            std::thread::sleep(std::time::Duration::from_secs(1));
            let now = TICKS.load(std::sync::atomic::Ordering::Relaxed);
            if now == last { stuck += 1; } else { stuck = 0; last = now; }
            if now > 0 && stuck >= limit {
                let d = IN_FLIGHT.lock().map(|g| g.clone()).unwrap_or_default();
                println!("{}", serde_json::json!({"hang": d, "seconds": limit}));
                std::process::exit(4);
            }
        }
    });
}
