//! `pfv calls <spec.json> <out-prefix>`: direct calls of the entropy adapters and of every
//! mutator with harness-chosen values and entropy sources (C15, C16, C18).  Values wider
//! than 31 bits travel as little-endian 16-bit limbs.

use pickle_fuzzer::mutators::*;
use pickle_fuzzer::verif::{EntropySource, GenerationSource};
use pickle_fuzzer::{EmissionSnapshot, Mutator};
use rand::{Rng, RngCore, SeedableRng};
use rand_chacha::ChaCha8Rng;
use serde::Deserialize;
use serde_json::{json, Value};
use std::io::Write;
use std::panic::{catch_unwind, AssertUnwindSafe};
use std::sync::atomic::{AtomicU64, Ordering};
use std::sync::Mutex;

/// progress counter and description of the call in flight (for the hang monitor)
static PROGRESS: AtomicU64 = AtomicU64::new(0);
static CURRENT: Mutex<String> = Mutex::new(String::new());

fn limbs64(v: u64) -> Vec<u32> {
    (0..4).map(|i| ((v >> (16 * i)) & 0xffff) as u32).collect()
}
fn limbs32(v: u32) -> Vec<u32> {
    (0..2).map(|i| (v >> (16 * i)) & 0xffff).collect()
}

/// entropy source description: PRNG seed or fuzzer bytes
#[derive(Clone)]
enum Src {
    Rand(u64),
    /// PRNG seeded with .0 and positioned at 32-bit word .1 of its stream (directed at extreme words)
    RandAt(u64, u64),
    Arb(Vec<u8>),
}

impl Src {
    fn json(&self) -> (i64, Value) {
        match self {
            Src::Rand(s) => (1, json!(limbs64(*s))),
            Src::RandAt(s, p) => (1, json!([limbs64(*s), limbs64(*p)].concat())),
            Src::Arb(b) => (2, json!(b)),
        }
    }
}

/// run `f` with a freshly built source; returns (result, bytes consumed from fuzzer input)
fn with_src<T>(src: &Src, f: impl FnOnce(&mut GenerationSource) -> T) -> Result<(T, usize), String> {
    PROGRESS.fetch_add(1, Ordering::Relaxed);
    crate::common::tick(String::new);
    let r = catch_unwind(AssertUnwindSafe(|| match src {
        Src::Rand(s) => {
            let mut rng = ChaCha8Rng::seed_from_u64(*s);
            let mut g = GenerationSource::Rand(&mut rng);
            (f(&mut g), 0usize)
        }
        Src::RandAt(s, p) => {
            let mut rng = ChaCha8Rng::seed_from_u64(*s);
            rng.set_word_pos(*p as u128);
            let mut g = GenerationSource::Rand(&mut rng);
            (f(&mut g), 0usize)
        }
        Src::Arb(b) => {
            let mut u = arbitrary::Unstructured::new(b);
            let before = u.len();
            let res = {
                // the source borrows `u` for its whole lifetime: scope it
                let mut g = GenerationSource::Arbitrary(unsafe { &mut *(&mut u as *mut arbitrary::Unstructured) });
                f(&mut g)
            };
            (res, before - u.len())
        }
    }));
    r.map_err(|p| {
        p.downcast_ref::<String>().cloned().or_else(|| p.downcast_ref::<&str>().map(|s| s.to_string())).unwrap_or_else(|| "panic".into())
    })
}

#[derive(Deserialize)]
struct Spec {
    seed: u64,
    /// number of sampled 2-byte inputs (all when >= 65536), sampled longer inputs, PRNG states
    two_byte: usize,
    longer: usize,
    rand_states: usize,
    /// number of sampled values per mutator/value kind besides the boundary grid
    values: usize,
    shards: usize,
}

fn sources(spec: &Spec, rng: &mut ChaCha8Rng, want_two: usize) -> Vec<Src> {
    let mut v = vec![Src::Arb(vec![])];
    for a in 0..=255u8 {
        v.push(Src::Arb(vec![a]));
    }
    if want_two >= 65536 {
        for a in 0..=255u8 { for b in 0..=255u8 { v.push(Src::Arb(vec![a, b])); } }
    } else {
        for _ in 0..want_two { v.push(Src::Arb(vec![rng.random(), rng.random()])); }
        for a in [0u8, 1, 127, 128, 254, 255] { for b in [0u8, 1, 127, 128, 254, 255] { v.push(Src::Arb(vec![a, b])); } }
    }
    for _ in 0..spec.longer {
        let len = rng.random_range(3..=16);
        let mut b = vec![0u8; len];
        rng.fill_bytes(&mut b);
        if rng.random_range(0..5) == 0 { for x in b.iter_mut() { *x = 0xff; } }
        if rng.random_range(0..5) == 0 { for x in b.iter_mut() { *x = 0; } }
        v.push(Src::Arb(b));
    }
    for _ in 0..spec.rand_states { v.push(Src::Rand(rng.random())); }
    v.extend(extreme_prng_states());
    v
}

/// PRNG states whose NEXT 32-bit words are extreme: exactly 0xffff_ffff (streams known to contain one
/// early), and the first words >= 0xffff_ff00 / <= 0xff of one stream.  A draw that reduces a word to
/// an index or a range meets its boundary here; also positioned one and two words earlier, so that the
/// extreme word is the second or third word a multi-word draw consumes.
fn extreme_prng_states() -> Vec<Src> {
    use rand::RngCore;
    let mut out = Vec::new();
    let at = |seed: u64, pos: u64, out: &mut Vec<Src>| {
        for back in 0..3u64 { if pos >= back { out.push(Src::RandAt(seed, pos - back)); } }
    };
    for seed in [3488453u64, 696709, 3250177, 1006852] {
        let mut r = ChaCha8Rng::seed_from_u64(seed);
        for pos in 0..600u64 {
            if r.next_u32() == u32::MAX { at(seed, pos, &mut out); break; }
        }
    }
    let mut r = ChaCha8Rng::seed_from_u64(1);
    let (mut hi, mut lo) = (0, 0);
    for pos in 0..200_000_000u64 {
        let w = r.next_u32();
        if w >= 0xffff_ff00 && hi < 3 { hi += 1; at(1, pos, &mut out); }
        if w <= 0xff && lo < 3 { lo += 1; at(1, pos, &mut out); }
        if hi >= 3 && lo >= 3 { break; }
    }
    out
}

struct Out {
    files: Vec<std::io::BufWriter<std::fs::File>>,
    n: usize,
}
impl Out {
    fn put(&mut self, v: Value) {
        let k = self.n % self.files.len();
        writeln!(self.files[k], "{}", v).unwrap();
        self.n += 1;
        if self.n % 5000 == 0 {
            for f in self.files.iter_mut() { let _ = f.flush(); }
        }
    }
}

const GRID: [u64; 17] = [0, 1, 2, 3, 94, 95, 255, 256, 257, 65535, 65536, 65537, 0x7fff_ffff, 0x1_0000_0000,
    u64::MAX - 1, u64::MAX, 1000];

fn entropy_calls(spec: &Spec, rng: &mut ChaCha8Rng, out: &mut Out) {
    let srcs = sources(spec, rng, spec.two_byte);
    for src in &srcs {
        let (sk, sv) = src.json();
        for &n in &GRID {
            let r = with_src(src, |g| g.choose_index(n as usize));
            out.put(match r {
                Ok((x, used)) => json!({"t": "ent", "m": "choose_index", "sk": sk, "src": sv, "a": limbs64(n), "b": limbs64(0), "r": limbs64(x as u64), "used": used, "panic": ""}),
                Err(p) => json!({"t": "ent", "m": "choose_index", "sk": sk, "src": sv, "a": limbs64(n), "b": limbs64(0), "r": limbs64(0), "used": 0, "panic": p}),
            });
        }
        for &a in &[0u64, 1, 5, 255, 256, 65536, 1000, u64::MAX - 1, u64::MAX] {
            for &b in &[0u64, 1, 2, 6, 10, 32, 64, 256, 257, 65537, 1000, 0x1_0000_0005, u64::MAX] {
                let r = with_src(src, |g| g.gen_range(a as usize, b as usize));
                out.put(match r {
                    Ok((x, used)) => json!({"t": "ent", "m": "gen_range", "sk": sk, "src": sv, "a": limbs64(a), "b": limbs64(b), "r": limbs64(x as u64), "used": used, "panic": ""}),
                    Err(p) => json!({"t": "ent", "m": "gen_range", "sk": sk, "src": sv, "a": limbs64(a), "b": limbs64(b), "r": limbs64(0), "used": 0, "panic": p}),
                });
            }
        }
        let r = with_src(src, |g| g.gen_ascii_char());
        out.put(match r {
            Ok((c, used)) => json!({"t": "ent", "m": "gen_ascii_char", "sk": sk, "src": sv, "a": limbs64(0), "b": limbs64(0), "r": limbs64(c as u64), "used": used, "panic": ""}),
            Err(p) => json!({"t": "ent", "m": "gen_ascii_char", "sk": sk, "src": sv, "a": limbs64(0), "b": limbs64(0), "r": limbs64(0), "used": 0, "panic": p}),
        });
        for &len in &[0usize, 1, 2, 7, 64] {
            let r = with_src(src, |g| g.gen_bytes(len));
            out.put(match r {
                Ok((v, used)) => json!({"t": "ent", "m": "gen_bytes", "sk": sk, "src": sv, "a": limbs64(len as u64), "b": limbs64(0), "r": limbs64(v.len() as u64), "used": used, "panic": ""}),
                Err(p) => json!({"t": "ent", "m": "gen_bytes", "sk": sk, "src": sv, "a": limbs64(len as u64), "b": limbs64(0), "r": limbs64(0), "used": 0, "panic": p}),
            });
        }
        // the scalar draws never fail; gen_unit_f64 is the probability draw of the mutation gate
        let r = with_src(src, |g| {
            let x = g.gen_unit_f64();
            (g.gen_bool(), g.gen_u8(), g.gen_u16(), g.gen_u32(), g.gen_i32(), g.gen_i64(), g.gen_f64().to_bits(), x)
        });
        out.put(match r {
            Ok(((_, _, _, _, _, _, _, x), used)) => json!({"t": "ent", "m": "scalars", "sk": sk, "src": sv, "a": limbs64(0), "b": limbs64(0),
                "r": limbs64(if (0.0..1.0).contains(&x) { 1 } else { 0 }), "used": used, "panic": ""}),
            Err(p) => json!({"t": "ent", "m": "scalars", "sk": sk, "src": sv, "a": limbs64(0), "b": limbs64(0), "r": limbs64(0), "used": 0, "panic": p}),
        });
    }
    // large requested lengths (powers of two and their neighbours up to 16 MiB) on a few sources
    let big: Vec<Src> = vec![Src::Arb(vec![]), Src::Arb(vec![7; 40]), Src::Arb(vec![0xff; 300]), Src::Rand(1), Src::Rand(rng.random())];
    for src in &big {
        let (sk, sv) = src.json();
        for &len in &[255usize, 256, 257, 4095, 4096, 65535, 65536, 65537, (1 << 20) - 1, 1 << 20, (1 << 20) + 1, (1 << 24) + 3] {
            let r = with_src(src, |g| g.gen_bytes(len));
            out.put(match r {
                Ok((v, used)) => json!({"t": "ent", "m": "gen_bytes", "sk": sk, "src": sv, "a": limbs64(len as u64), "b": limbs64(0), "r": limbs64(v.len() as u64), "used": used, "panic": ""}),
                Err(p) => json!({"t": "ent", "m": "gen_bytes", "sk": sk, "src": sv, "a": limbs64(len as u64), "b": limbs64(0), "r": limbs64(0), "used": 0, "panic": p}),
            });
        }
    }
}

fn mutator_by_id(id: usize, unsafe_mode: bool) -> Box<dyn Mutator> {
    match id {
        1 => Box::new(BitFlipMutator),
        2 => Box::new(BoundaryMutator),
        3 => Box::new(OffByOneMutator),
        4 => Box::new(StringLengthMutator),
        5 => Box::new(CharacterMutator),
        6 => Box::new(MemoIndexMutator::new(unsafe_mode)),
        _ => Box::new(TypeConfusionMutator::new(unsafe_mode)),
    }
}

fn opt_limbs(v: Option<Vec<u32>>) -> Value {
    match v { Some(l) => json!({"some": 1, "v": l}), None => json!({"some": 0, "v": []}) }
}

fn mutator_calls(spec: &Spec, rng: &mut ChaCha8Rng, out: &mut Out) {
    // a smaller source set per value (the grid is values x sources x rates x mutators)
    let mut srcs = vec![Src::Arb(vec![]), Src::Arb(vec![0]), Src::Arb(vec![255]), Src::Arb(vec![0; 24]), Src::Arb(vec![255; 24]),
                        Src::Arb(vec![0x7f, 0xf8, 0, 0, 0, 0, 0, 0, 9, 9, 9, 9, 9, 9, 9, 9]),   // f64 NaN pattern first
                        Src::Arb(vec![0xff, 0xf0, 0, 0, 0, 0, 0, 0, 1, 2, 3, 4, 5, 6, 7, 8])];  // -inf pattern first
    for _ in 0..spec.longer.min(12) {
        let len = rng.random_range(1..=40);
        let mut b = vec![0u8; len];
        rng.fill_bytes(&mut b);
        srcs.push(Src::Arb(b));
    }
    for _ in 0..spec.rand_states.min(10) { srcs.push(Src::Rand(rng.random())); }
    srcs.extend(extreme_prng_states().into_iter().step_by(3));
    let rates: [(i64, f64); 3] = [(0, 0.0), (2, 1.0), (1, 0.5)];

    let mut i32s: Vec<i32> = vec![i32::MIN, i32::MIN + 1, -2, -1, 0, 1, 2, i32::MAX - 1, i32::MAX, 0x7fff, 0x8000, 0xffff, 0x10000, -0x8000];
    // boundaries of the narrower widths inside the wider domain
    for w in [7u32, 8, 15, 16] { for d in [-1i32, 0, 1] { i32s.push((1i32 << w) + d); i32s.push(-(1i32 << w) + d); } }
    for k in 0..32 { i32s.push(1i32.wrapping_shl(k)); }
    for _ in 0..spec.values { i32s.push(rng.random()); }
    let mut i64s: Vec<i64> = vec![i64::MIN, i64::MIN + 1, -1, 0, 1, i64::MAX - 1, i64::MAX, 0xffff_ffff, 0x1_0000_0000, -0x1_0000_0000,
                                  i32::MAX as i64, i32::MIN as i64];
    for w in [7u32, 8, 15, 16, 31, 32] { for d in [-1i64, 0, 1] { i64s.push((1i64 << w) + d); i64s.push(-(1i64 << w) + d); } }
    for k in 0..64 { i64s.push(1i64.wrapping_shl(k)); }
    for _ in 0..spec.values { i64s.push(rng.random()); }
    let memos: Vec<usize> = vec![0, 1, 2, 255, 256, 998, 999, 1000, 65535, 65536, usize::MAX - 1, usize::MAX];
    let f64s: Vec<f64> = vec![0.0, -0.0, 1.5, f64::NAN, f64::INFINITY, f64::MIN, 1e300];
    let mut strings: Vec<String> = vec!["".into(), "a".into(), "ab".into(), "é".into(), "日本語".into(), "a'b\\c\nd".into(), "x".repeat(64), "\u{10ffff}z".into()];
    let mut bytess: Vec<Vec<u8>> = vec![vec![], vec![0], vec![255], vec![1, 2, 3], vec![0x80; 64], (0..64).collect()];
    for _ in 0..spec.values.min(10) {
        let n = rng.random_range(0..64);
        strings.push((0..n).map(|_| char::from_u32(rng.random_range(32..0x250)).unwrap_or('x')).collect());
        let n = rng.random_range(0..64);
        bytess.push((0..n).map(|_| rng.random()).collect());
    }

    // draw-directed sources (rate 1.0 only): after the 8 gate bytes, the next draw of width 1/2/4/8
    // bytes takes a boundary value d (arbitrary reads integers big-endian), so that a draw of
    // n-1, n, 255, 256, 999, 1000 ... meets the boundary VALUES of the grids below; and after the
    // gate every byte-valued draw takes the same value b, for every b
    let mut directed: Vec<(Src, bool)> = Vec::new();
    let ds: [u64; 16] = [0, 1, 2, 93, 94, 95, 127, 128, 254, 255, 256, 998, 999, 1000, 1001, 65535];
    for filler in [0usize, 8] {
        for width in [1usize, 2, 4, 8] {
            for d in ds {
                if width == 1 && d > 255 { continue; }
                let mut b = vec![0u8; filler];
                b.extend_from_slice(&d.to_be_bytes()[8 - width..]);
                b.extend_from_slice(&[0u8; 8]);
                directed.push((Src::Arb(b), false));
            }
        }
    }
    for b in 0..=255u8 {
        let mut v = vec![0u8; 8];
        v.extend_from_slice(&[b; 16]);
        directed.push((Src::Arb(v), true));
    }
    for mid in 1..=7usize {
        for unsafe_mode in [false, true] {
            if !(mid == 6 || mid == 7) && unsafe_mode { continue; }
            let m = mutator_by_id(mid, unsafe_mode);
            for (src, texts) in &directed {
                let (sk, sv) = src.json();
                let base = json!({"t": "mut", "mut": mid, "um": if unsafe_mode {1} else {0}, "rate": 2, "sk": sk, "src": sv});
                *CURRENT.lock().unwrap() = base.to_string();
                let mut emit = |meth: &str, inp: Value, res: Result<(Value, usize), String>| {
                    let mut v = base.clone();
                    v["meth"] = json!(meth);
                    v["in"] = inp;
                    match res {
                        Ok((o, _)) => { v["out"] = o; v["panic"] = json!(""); }
                        Err(p) => { v["out"] = json!({"some": 0, "v": []}); v["panic"] = json!(p); }
                    }
                    out.put(v);
                };
                if *texts {
                    for x in strings.iter().take(8) {
                        let r = with_src(src, |g| m.mutate_string(x.clone(), g, 1.0));
                        let cps = |s: &str| s.chars().map(|c| c as u32).collect::<Vec<u32>>();
                        emit("string", json!(cps(x)), r.map(|(o, u)| (opt_limbs(o.map(|y| cps(&y))), u)));
                    }
                    for x in bytess.iter().take(6) {
                        let r = with_src(src, |g| m.mutate_bytes(x.clone(), g, 1.0));
                        emit("bytes", json!(x), r.map(|(o, u)| (opt_limbs(o.map(|y| y.iter().map(|b| *b as u32).collect())), u)));
                    }
                } else {
                    for &x in i32s.iter().take(14) {
                        let r = with_src(src, |g| m.mutate_int(x, g, 1.0));
                        emit("int", json!(limbs32(x as u32)), r.map(|(o, u)| (opt_limbs(o.map(|y| limbs32(y as u32))), u)));
                    }
                    for &x in i64s.iter().take(12) {
                        let r = with_src(src, |g| m.mutate_long(x, g, 1.0));
                        emit("long", json!(limbs64(x as u64)), r.map(|(o, u)| (opt_limbs(o.map(|y| limbs64(y as u64))), u)));
                    }
                    for &x in &memos {
                        let r = with_src(src, |g| m.mutate_memo_index(x, g, 1.0));
                        emit("memo", json!(limbs64(x as u64)), r.map(|(o, u)| (opt_limbs(o.map(|y| limbs64(y as u64))), u)));
                    }
                }
            }
        }
    }

    for mid in 1..=7usize {
        for unsafe_mode in [false, true] {
            if !(mid == 6 || mid == 7) && unsafe_mode { continue; }
            let m = mutator_by_id(mid, unsafe_mode);
            for src in &srcs {
                let (sk, sv) = src.json();
                for &(rc, rate) in &rates {
                    let base = json!({"t": "mut", "mut": mid, "um": if unsafe_mode {1} else {0}, "rate": rc, "sk": sk, "src": sv});
                    *CURRENT.lock().unwrap() = base.to_string();
                    let mut emit = |meth: &str, inp: Value, res: Result<(Value, usize), String>| {
                        let mut v = base.clone();
                        v["meth"] = json!(meth);
                        v["in"] = inp;
                        match res {
                            Ok((o, _)) => { v["out"] = o; v["panic"] = json!(""); }
                            Err(p) => { v["out"] = json!({"some": 0, "v": []}); v["panic"] = json!(p); }
                        }
                        out.put(v);
                    };
                    for &x in &i32s {
                        let r = with_src(src, |g| m.mutate_int(x, g, rate));
                        emit("int", json!(limbs32(x as u32)), r.map(|(o, u)| (opt_limbs(o.map(|y| limbs32(y as u32))), u)));
                    }
                    for &x in &i64s {
                        let r = with_src(src, |g| m.mutate_long(x, g, rate));
                        emit("long", json!(limbs64(x as u64)), r.map(|(o, u)| (opt_limbs(o.map(|y| limbs64(y as u64))), u)));
                    }
                    for &x in &f64s {
                        let r = with_src(src, |g| m.mutate_float(x, g, rate));
                        emit("float", json!(limbs64(x.to_bits())), r.map(|(o, u)| (opt_limbs(o.map(|y| limbs64(y.to_bits()))), u)));
                    }
                    for &x in &memos {
                        let r = with_src(src, |g| m.mutate_memo_index(x, g, rate));
                        emit("memo", json!(limbs64(x as u64)), r.map(|(o, u)| (opt_limbs(o.map(|y| limbs64(y as u64))), u)));
                    }
                    for x in &strings {
                        let r = with_src(src, |g| m.mutate_string(x.clone(), g, rate));
                        let cps = |s: &str| s.chars().map(|c| c as u32).collect::<Vec<u32>>();
                        emit("string", json!(cps(x)), r.map(|(o, u)| (opt_limbs(o.map(|y| cps(&y))), u)));
                    }
                    for x in &bytess {
                        let r = with_src(src, |g| m.mutate_bytes(x.clone(), g, rate));
                        emit("bytes", json!(x), r.map(|(o, u)| (opt_limbs(o.map(|y| y.iter().map(|b| *b as u32).collect())), u)));
                    }
                    // post-emission rewrite: a prefix, then one just-emitted opcode
                    let prefix: Vec<u8> = vec![0x80, 0x04, 0x4e];
                    let emissions: Vec<Vec<u8>> = vec![
                        vec![0x4a, 1, 0, 0, 0], vec![0x4b, 7], vec![0x4d, 1, 2], vec![0x49, 0x31, 0x0a], vec![0x4c, 0x31, 0x4c, 0x0a],
                        vec![0x8a, 1, 5], vec![0x47, 0, 0, 0, 0, 0, 0, 0, 0], vec![0x46, 0x31, 0x0a], vec![0x8c, 2, 0x61, 0x62],
                        vec![0x58, 1, 0, 0, 0, 0x61], vec![0x56, 0x61, 0x0a], vec![0x53, 0x27, 0x61, 0x27, 0x0a], vec![0x43, 1, 9],
                        vec![0x42, 1, 0, 0, 0, 9], vec![0x55, 1, 9], vec![0x5d], vec![0x7d], vec![0x29], vec![0x4e], vec![0x88], vec![0x89],
                        vec![0x85], vec![0x86], vec![0x74], vec![0x6c], vec![0x64], vec![0x8f], vec![0x28], vec![0x30], vec![0x32], vec![0x61],
                        vec![0x63, 0x61, 0x0a, 0x62, 0x0a], vec![0x52], vec![0x94], vec![0x71, 0], vec![0x68, 0], vec![0x93], vec![0x91],
                        vec![0x96, 1, 0, 0, 0, 0, 0, 0, 0, 7], vec![0x82, 1], vec![0x50, 0x70, 0x0a], vec![],
                    ];
                    for em in &emissions {
                        let mut before = prefix.clone();
                        before.extend_from_slice(em);
                        let snap = EmissionSnapshot { stack_depth: 1, output_len: prefix.len(), memo_size: 0, stack_delta: vec![],
                            output_delta: em.clone(), memo_delta: vec![] };
                        let mut after = before.clone();
                        let r = with_src(src, |g| m.post_process(&snap, &mut after, g, rate));
                        let mut v = base.clone();
                        v["meth"] = json!("post");
                        v["in"] = json!(before);
                        match r {
                            Ok((rep, _)) => { v["out"] = json!({"some": if rep {1} else {0}, "v": after}); v["panic"] = json!(""); }
                            Err(p) => { v["out"] = json!({"some": 0, "v": []}); v["panic"] = json!(p); }
                        }
                        v["snap"] = json!(prefix.len());
                        out.put(v);
                    }
                }
            }
        }
    }
}

pub fn main(args: &[String]) -> i32 {
    let spec: Spec = serde_json::from_str(&std::fs::read_to_string(&args[0]).expect("read")).expect("parse");
    std::panic::set_hook(Box::new(|_| {}));
    // hang monitor: a call that does not return within 20 s ends the process with exit code 3 after
    // naming the (mutator, source, rate) combination in flight; records written so far stay valid
    std::thread::spawn(|| {
        let mut last = 0u64;
        let mut stuck = 0;
        loop {
            std::thread::sleep(std::time::Duration::from_secs(1));
            let now = PROGRESS.load(Ordering::Relaxed);
            if now == last { stuck += 1; } else { stuck = 0; last = now; }
            if stuck >= 20 && now > 0 {
                let cur = CURRENT.lock().map(|c| c.clone()).unwrap_or_default();
                println!("{}", json!({"hang": cur}));
                std::process::exit(3);
            }
        }
    });
    let mut rng = ChaCha8Rng::seed_from_u64(spec.seed);
    let mk = |kind: &str| Out {
        files: (0..spec.shards).map(|i| std::io::BufWriter::new(std::fs::File::create(format!("{}{}_{}.ndjson", args[1], kind, i)).expect("create"))).collect(),
        n: 0,
    };
    let mut e = mk("ent");
    entropy_calls(&spec, &mut rng, &mut e);
    for f in e.files.iter_mut() { let _ = f.flush(); }
    let mut m = mk("mut");
    mutator_calls(&spec, &mut rng, &mut m);
    println!("{}", json!({"ent": e.n, "mut": m.n}));
    0
}
