//! pfv — harness binding the TLA+ specification to the real pickle-fuzzer code.
mod common;
mod edges;
mod jobs;

fn main() {
    let args: Vec<String> = std::env::args().skip(1).collect();
    let code = match args.first().map(|s| s.as_str()) {
        Some("run-jobs") => jobs::main(&args[1..]),
        Some("edges") => edges::main(&args[1..]),
        _ => {
            eprintln!("usage: pfv <run-jobs|...> ...");
            2
        }
    };
    std::process::exit(code);
}
