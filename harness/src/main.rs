//! pfv — harness binding the TLA+ specification to the real pickle-fuzzer code.
mod calls;
mod common;
mod edges;
mod heap;
mod history;
mod jobs;

#[global_allocator]
static GLOBAL: history::Counting = history::Counting;

fn main() {
    let args: Vec<String> = std::env::args().skip(1).collect();
    common::start_watchdog();
    let code = match args.first().map(|s| s.as_str()) {
        Some("run-jobs") => jobs::main(&args[1..]),
        Some("edges") => edges::main(&args[1..]),
        Some("calls") => calls::main(&args[1..]),
        Some("replay-paths") => edges::replay_paths(&args[1..]),
        Some("guards") => edges::guards(&args[1..]),
        Some("globals") => edges::globals(&args[1..]),
        Some("edge-one") => edges::edge_one(&args[1..]),
        Some("reuse") => history::reuse(&args[1..]),
        Some("determinism") => history::determinism(&args[1..]),
        Some("gen-batch") => history::gen_batch(&args[1..]),
        Some("total") => history::total(&args[1..]),
        Some("total-child") => history::total_child(&args[1..]),
        Some("opscan") => history::opscan(&args[1..]),
        Some("leak") => history::leak(&args[1..]),
        Some("heapbfs") => heap::main(&args[1..]),
        Some("heapwalk") => heap::walk(&args[1..]),
        Some("libgen") => history::libgen(&args[1..]),
        _ => {
            eprintln!("usage: pfv <run-jobs|...> ...");
            2
        }
    };
    std::process::exit(code);
}
