"""generation jobs (configuration x entropy) for the trace-validation corpora"""
import random
from .util import sub_seed

MUTS = ["bitflip", "boundary", "offbyone", "stringlen", "character", "memoindex", "typeconfusion"]

def cfg(P, mn=60, mx=300, muts=(), rate=0.1, unsafe=False, ext=False, buf=False, mut_unsafe=None, rate_raw=False, bufsize=None, alt_builder=False):
    c = {"P": P, "min": mn, "max": mx, "muts": list(muts), "rate": rate, "unsafe": unsafe,
         "mut_unsafe": unsafe if mut_unsafe is None else mut_unsafe, "ext": ext, "buf": buf,
         "rate_raw": rate_raw}
    if bufsize is not None: c["bufsize"] = bufsize
    if alt_builder: c["alt_builder"] = True
    return c

# mutator lists in which a name is registered more than once (legal: --mutators a b a)
DUP_LISTS = [["bitflip", "boundary", "bitflip"], ["offbyone", "memoindex", "offbyone", "character"],
             ["typeconfusion", "typeconfusion"], ["stringlen", "character", "stringlen", "boundary", "character"]]

class Jobs:
    def __init__(self, label):
        self.jobs = []
        self.rng = random.Random(sub_seed("corpus", label))
    def seed_job(self, c, seed=None, **kw):
        j = {"id": len(self.jobs) + 1, "cfg": c, "mode": "seed",
             "seed": self.rng.getrandbits(48) if seed is None else seed}
        j.update(kw); self.jobs.append(j); return j
    def bytes_job(self, c, kind="random", blen=None, data=None, **kw):
        j = {"id": len(self.jobs) + 1, "cfg": c, "mode": "bytes", "seed": self.rng.getrandbits(48),
             "bkind": kind, "blen": self.rng.choice([16, 60, 200, 700, 2500]) if blen is None else blen}
        if data is not None:
            j["bytes"] = list(data)
        j.update(kw); self.jobs.append(j); return j

def safe_subsets(rng, n_random):
    """mutator lists with unsafe_mutations = false: singletons, the full list, random ordered subsets"""
    out = [[m] for m in MUTS] + [list(MUTS)]
    for _ in range(n_random):
        k = rng.randint(2, 6)
        out.append(rng.sample(MUTS, k))
    return out

def tracegen_jobs(tier):
    q = tier == "quick"
    J = Jobs("tracegen-" + tier)
    rng = J.rng
    for P in range(6):
        # A default settings
        for _ in range(3 if q else 25):
            J.seed_job(cfg(P))
        for _ in range(1 if q else 10):
            J.bytes_job(cfg(P), blen=3000)
        # B small programs, both entropy modes, degenerate inputs
        small = dict(mn=3, mx=40)
        for _ in range(16 if q else 150):
            J.seed_job(cfg(P, **small))
        for _ in range(16 if q else 150):
            J.bytes_job(cfg(P, **small))
        for kind, blen in [("empty", 0), ("zero", 64), ("ff", 64), ("ramp", 300), ("random", 1), ("random", 2), ("ff", 3000), ("zero", 3000)]:
            J.bytes_job(cfg(P, **small), kind=kind, blen=blen)
            J.bytes_job(cfg(P), kind=kind, blen=blen)
            J.bytes_job(cfg(P, 10, 60, ext=True, buf=True), kind=kind, blen=blen)
            J.bytes_job(cfg(P, 10, 60, muts=MUTS, rate=1.0, ext=True, buf=True), kind=kind, blen=blen)
        # C opcode-range corner cases
        for (mn, mx) in [(0, 0), (1, 1), (50, 3), (7, 7), (0, 5), (2, 3)]:
            for _ in range(2 if q else 8):
                J.seed_job(cfg(P, mn, mx))
                J.bytes_job(cfg(P, mn, mx))
        # D safe mutator subsets x rates x modes
        for ms in safe_subsets(rng, 8 if q else 40):
            for rate in (0.0, 0.5, 1.0):
                for _ in range(1 if q else 3):
                    J.seed_job(cfg(P, 10, 60, muts=ms, rate=rate))
                    J.bytes_job(cfg(P, 10, 60, muts=ms, rate=rate))
        if not q:
            # all 2^7 subsets (canonical order) at rate 1 in thorough
            for mask in range(1, 128):
                ms = [m for i, m in enumerate(MUTS) if mask >> i & 1]
                J.seed_job(cfg(P, 10, 40, muts=ms, rate=1.0))
                J.bytes_job(cfg(P, 10, 40, muts=ms, rate=1.0))
        # D' a mutator registered more than once; the (inert) buffer-size option; the other builder route
        for ms in DUP_LISTS:
            for rate in (0.5, 1.0):
                J.seed_job(cfg(P, 10, 60, muts=ms, rate=rate))
                J.bytes_job(cfg(P, 10, 60, muts=ms, rate=rate))
                J.seed_job(cfg(P, 10, 60, muts=ms, rate=rate, unsafe=True))
        for bs in (0, 16, 512, 100000):
            J.seed_job(cfg(P, bufsize=bs)); J.bytes_job(cfg(P, 10, 60, bufsize=bs))
            # two options together: the (inert) buffer size with mutators at rate 0 / 1
            for ms in (["stringlen"], ["stringlen", "character", "boundary"], list(MUTS)):
                J.seed_job(cfg(P, 20, 80, muts=ms, rate=1.0, bufsize=bs)); J.bytes_job(cfg(P, 20, 80, muts=ms, rate=1.0, bufsize=bs))
            J.seed_job(cfg(P, 20, 80, muts=MUTS, rate=0.0, bufsize=bs))
        J.seed_job(cfg(P, 10, 60, muts=MUTS, rate=0.5, alt_builder=True))
        for ms in DUP_LISTS:       # one-at-a-time registration of a list that repeats a name
            J.seed_job(cfg(P, 10, 60, muts=ms, rate=1.0, alt_builder=True))
            J.bytes_job(cfg(P, 10, 60, muts=ms, rate=1.0, alt_builder=True))
        # E opt-in opcode flags
        for ext in (False, True):
            for buf in (False, True):
                for _ in range(3 if q else 20):
                    J.seed_job(cfg(P, 20, 80, ext=ext, buf=buf))
                    J.bytes_job(cfg(P, 20, 80, ext=ext, buf=buf))
                J.seed_job(cfg(P, 20, 80, ext=ext, buf=buf, muts=MUTS, rate=0.5, unsafe=True))
                # the same flags reached through a builder history (other values first, then these)
                J.seed_job(cfg(P, 20, 80, ext=ext, buf=buf, alt_builder=True))
                J.seed_job(cfg(P, 20, 80, ext=ext, buf=buf, muts=MUTS, rate=0.5, alt_builder=True))
        # F unsafe configurations (lexical properties only)
        for ms in ([["typeconfusion"], ["memoindex"], list(MUTS), ["stringlen", "typeconfusion", "memoindex"]]
                   + ([] if q else [rng.sample(MUTS, rng.randint(1, 7)) for _ in range(20)])):
            for rate in (0.5, 1.0):
                for _ in range(2 if q else 4):
                    J.seed_job(cfg(P, 10, 80, muts=ms, rate=rate, unsafe=True))
                    J.bytes_job(cfg(P, 10, 80, muts=ms, rate=rate, unsafe=True))
        # mismatched flags (reachable through the library API, not through the CLI): generator unsafe with
        # mutators created safe, and a safe generator with mutators created unsafe
        J.seed_job(cfg(P, 10, 60, muts=MUTS, rate=1.0, unsafe=True, mut_unsafe=False))
        for ms in (["memoindex"], ["memoindex", "offbyone"], ["typeconfusion", "memoindex", "boundary"], list(MUTS)):
            for rate in (0.0, 1.0):
                J.seed_job(cfg(P, 30, 90, muts=ms, rate=rate, unsafe=False, mut_unsafe=True))
                J.bytes_job(cfg(P, 30, 90, muts=ms, rate=rate, unsafe=False, mut_unsafe=True))
        # G long programs: memo beyond 255 entries, index mutators at rate 1
        longs = [(2000, 4000)] if q else [(2000, 4000), (2000, 4000), (6000, 9000)]
        for (mn, mx) in longs:
            J.seed_job(cfg(P, mn, mx, muts=["offbyone", "memoindex"], rate=1.0))
            if not q:
                J.bytes_job(cfg(P, mn, mx, muts=["memoindex", "offbyone"], rate=1.0), blen=60000)
                J.seed_job(cfg(P, mn, mx))
        # S sharing amplification: (DUP TUPLE2)^n builds a DAG of 2n cells with 2^n paths; anything that walks
        # the simulated objects by value instead of by cell (hashing a dict key / set member, comparing, copying,
        # dropping) would need exponential time.  Forced opcode choices, the real generator does the rest.
        if P >= 2:
            n = 48
            amp = [0x32, 0x86] * n
            shapes = [[0x7d, 0x29] + amp + [0x4e, 0x73],                 # dict key via SETITEM
                      [0x28, 0x29] + amp + [0x4e, 0x64],                 # dict key via DICT
                      [0x29] + [0x32, 0x32, 0x87] * 30 + [0x94 if P >= 4 else 0x71, 0x32, 0x86]]   # TUPLE3 tripling, memoised, copied
            if P >= 4:
                shapes += [[0x8f, 0x28, 0x29] + amp + [0x90], [0x28, 0x29] + amp + [0x91]]      # set member, frozenset member
            for sh in shapes:
                J.seed_job(cfg(P, len(sh) + 3, len(sh) + 3), force=[[i, b] for i, b in enumerate(sh)])
        # H histories: the recorded generation is the (warm+1)-th call on ONE generator; every per-pickle
        # property must hold for it exactly as for the first (state left behind by earlier calls)
        for warm in ((1, 2, 5) if q else (1, 2, 3, 5, 9)):
            for _ in range(2 if q else 6):
                J.seed_job(cfg(P), warm=warm)
                J.seed_job(cfg(P, 10, 60, muts=["offbyone", "memoindex"], rate=1.0), warm=warm)
            J.bytes_job(cfg(P), blen=3000, warm=warm)
            J.seed_job(cfg(P, 20, 80, ext=True, buf=True), warm=warm)
            J.seed_job(cfg(P, 10, 80, muts=MUTS, rate=0.5, unsafe=True), warm=warm)
            # the caller takes the buffer out of the public `output` field between calls
            J.seed_job(cfg(P), warm=warm, take_output=True)
            J.bytes_job(cfg(P, 10, 60, ext=True, buf=True), warm=warm, take_output=True)
        # a generator constructed for another protocol and re-targeted through the public state field
        for k in range(3 if q else 12):
            J.seed_job(cfg(P), warm=k % 2, retarget_from=(P + 1 + k) % 6)
            J.bytes_job(cfg(P, 10, 60), warm=k % 2, retarget_from=(P + 2 + k) % 6)
        # an earlier call with a very large memo, then an ordinary pickle
        if P >= 1:
            J.seed_job(cfg(P, 3500, 4500), warm=1)
    return J.jobs
