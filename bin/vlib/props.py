"""per-property composition of stage results into verdicts and evidence"""
import json, os, re, time
from .util import *
from . import stages

TRACEGEN_PROPS = ["C01", "C02", "C03", "C04", "C05", "C06", "C10", "C11", "C15", "C17", "C09"]

class Result:
    def __init__(self, prop):
        self.prop = prop
        self.violations = []     # dicts: signature, desc, replay
        self.coverage = {}
        self.samples = []
        self.assumptions = []
        self.level = "model_checking"
        self.notes = []
        self.drift = []
    def violation(self, signature, desc, replay):
        self.violations.append({"signature": signature, "desc": desc, "replay": replay})

def job_brief(job):
    c = job["cfg"]
    s = "P%d ops=%d..%d" % (c["P"], c["min"], c["max"])
    if c["muts"]: s += " muts=%s rate=%s" % (",".join(c["muts"]), c["rate"])
    if c["unsafe"]: s += " unsafe"
    if c["ext"]: s += " ext"
    if c["buf"]: s += " buf"
    s += " " + (("seed=%d" % job["seed"]) if job["mode"] == "seed" else ("bytes=%s/%d/seed %d" % (job.get("bkind"), job.get("blen", 0), job["seed"])))
    return s

def add_tracegen(res, tg, prop):
    """fold the findings of the TraceGen stage that belong to `prop` into res"""
    seen = set()
    n = 0
    for f in tg["findings"]:
        if f["kind"] == "V" and f["tag"] == prop:
            n += 1
            sig = "%s:tracegen:%s" % (prop, f["why"])
            k = (sig, f["job"]["id"])
            if k in seen:
                continue
            seen.add(k)
            res.violation(sig, "%s at event %d of generation [%s]" % (f["why"], f["event"], job_brief(f["job"])),
                          {"stage": "tracegen", "job": f["job"], "event": f["event"], "property": prop, "reason": f["why"]})
        elif f["kind"] == "D":
            res.drift.append({"tag": f["tag"], "why": f["why"], "job": job_brief(f["job"]), "event": f["event"]})
    cov = tg["coverage"]
    res.coverage.setdefault("traces_validated_against_impl", 0)
    res.coverage["traces_validated_against_impl"] += cov["runs"]
    res.coverage["trace_events_validated"] = cov["events"]
    res.coverage["trace_validation_tlc_states"] = cov["tlc_states"]
    res.coverage["tracegen"] = cov
    res.samples.extend(tg["samples"][:3])
    return n

# ---------------------------------------------------------------------------
KNOWN = os.path.join(VERIF, "known_findings.json")

def load_known():
    try:
        return json.load(open(KNOWN))
    except FileNotFoundError:
        return {"findings": [], "fixed": []}

def add_mc(res, tier_, names):
    """model-checking runs of the design that serve this property"""
    runs = stages.mc_stage(tier_, names)
    res.coverage["states"] = res.coverage.get("states", 0) + sum(r["distinct"] for r in runs)
    res.coverage["transitions"] = res.coverage.get("transitions", 0) + sum(r["generated"] for r in runs)
    res.coverage["model_checking_runs"] = [
        {"config": r["name"], "distinct_states": r["distinct"], "states_generated": r["generated"], "wall_s": r["wall_s"],
         "cached": r.get("_cache_hit", False), "actions_taken": r["coverage_by_action"]} for r in runs]

def finish(res, tier_, wall):
    known = load_known()
    os.makedirs(EVIDENCE, exist_ok=True)
    rdir = os.path.join(WORK, "replay"); os.makedirs(rdir, exist_ok=True)
    new, listed = [], []
    for v in res.violations:
        hit = None
        for k in known.get("findings", []):
            if k["property"] == res.prop and re.fullmatch(k["signature"], v["signature"]):
                hit = k; break
        (listed if hit else new).append((v, hit))
    lines = []
    shown = set()
    for v, k in listed:
        if k["id"] not in shown:
            shown.add(k["id"])
            lines.append("KNOWN-FINDING: property=%s %s" % (res.prop, k["what"]))
    for i, (v, _) in enumerate(new[:20]):
        p = os.path.join(rdir, "%s_%s_%d.json" % (res.prop, tier_, i))
        json.dump(v["replay"], open(p, "w"), indent=1)
        lines.append("VIOLATION property=%s replay=%s  # %s" % (res.prop, p, v["desc"]))
    for d in res.drift[:10]:
        lines.append("MODEL-DRIFT property=%s %s: %s [%s event %s]" % (res.prop, d["tag"], d["why"][:300], d["job"], d["event"]))
    cov = dict(res.coverage)
    cov.setdefault("samples", res.samples[:6] or [{"note": "no sample recorded"}])
    if res.level == "model_checking":
        cov.setdefault("traces_validated_against_impl", 0)
        if not cov.get("states"):
            # no design-level model-checking run serves this property: the TLC states are those of the
            # trace-validation specification (one state per consumed event / record)
            cov["states"] = cov.get("trace_validation_tlc_states", 0)
            cov["transitions"] = cov.get("trace_validation_tlc_states", 0)
            cov["states_are"] = "TLC states of the trace-validation specification only (no separate design-level model-checking run for this property)"
        else:
            cov["states_are"] = "distinct / generated states of the design-level model-checking runs listed under model_checking_runs; trace-validation states are counted separately"

    cov["drift_records"] = len(res.drift)
    cov["violations_found"] = [v["desc"] for v, _ in new[:20]]
    cov["known_findings_matched"] = sorted(shown)
    ev = {"property_id": res.prop, "tier": tier_, "seed": seed(), "level": res.level, "coverage": cov,
          "assumptions": res.assumptions, "wall_s": round(wall, 2), "violations": len(new), "notes": res.notes}
    tmp = os.path.join(EVIDENCE, res.prop + ".json.tmp")
    json.dump(ev, open(tmp, "w"), indent=1)
    os.replace(tmp, os.path.join(EVIDENCE, res.prop + ".json"))
    for l in lines:
        print(l)
    print("%s property=%s tier=%s wall=%.1fs" % ("FAIL" if new else "PASS", res.prop, tier_, wall))
    prune_cache()
    return 1 if new else 0

def replay(prop, path):
    """re-run exactly the case of a replay file through the harness and TLC"""
    r = json.load(open(path))
    if r.get("stage") == "tracegen":
        build_harness()
        from . import tlc
        d = os.path.join(WORK, "replay_run"); os.makedirs(d, exist_ok=True)
        job = dict(r["job"]); job["id"] = 1
        jf = os.path.join(d, "job.json"); json.dump([job], open(jf, "w"))
        of = os.path.join(d, "trace.ndjson")
        run([PFV, "run-jobs", jf, of, "1"])
        res = tlc.run_trace_shards("replay", "TraceGen.tla", "TraceGen.cfg", [of])
        bad = False
        for vals, st, wall in res:
            for v in vals:
                if v and v[0] == "MSGS":
                    for m in v[1]:
                        print(m)
                        if m[0] == "V" and m[3] == prop: bad = True
        if bad:
            print("VIOLATION property=%s replay=%s" % (prop, path)); return 1
        print("replay: property %s holds on this case" % prop); return 0
    if r.get("stage") == "edges":
        build_harness()
        from . import tlc
        d = os.path.join(WORK, "replay_run"); os.makedirs(d, exist_ok=True)
        ef = os.path.join(d, "edge.json"); json.dump(r["edge"], open(ef, "w"))
        of = os.path.join(d, "edge.ndjson")
        run([PFV, "edge-one", ef, of])
        res = tlc.run_trace_shards("replay", "TraceEdges.tla", "TraceEdges.cfg", [of])
        bad = False
        for vals, st, wall in res:
            for v in vals:
                if v and v[0] == "MSGS":
                    for m in v[1]:
                        print(m)
                        if m[0] == "V" and m[2] == prop: bad = True
        if bad:
            print("VIOLATION property=%s replay=%s" % (prop, path)); return 1
        print("replay: property %s holds on this edge" % prop); return 0
    # history / call stages: the cheapest faithful replay is the stage itself (seconds to a minute) on the
    # current tree with the same VERIF_SEED; the recorded case is in the replay file for reference
    fn = CHECKS.get(prop)
    if fn is None:
        print("unknown property", prop); return 2
    os.environ["VERIF_NOCACHE"] = "1"
    res = fn(tier())
    hits = [v for v in res.violations if v["replay"].get("stage") == r.get("stage")]
    for v in hits[:5]:
        print("reproduced:", v["desc"][:400])
    if hits:
        print("VIOLATION property=%s replay=%s" % (prop, path)); return 1
    print("replay: stage %r re-run on the current tree reports no violation of %s" % (r.get("stage"), prop)); return 0

# ---------------------------------------------------------------------------
ASSUME_TRACE = ["hook events (cfg pickle_fuzzer_verif) report the generator's real output length, stack kinds and memo keys",
                "RefPVM/Lexer transcribe CPython pickletools.dis / pickle.py semantics correctly (differentially tested against pickletools in the self-test)"]
ASSUME_MC = ["exhaustive model-checking results transfer to the code only while trace validation reports no MODEL-DRIFT between GenCore guards/effects and the implementation"]

def add_edges(res, ed, prop):
    seen = set()
    for f in ed["findings"]:
        if f["kind"] == "V" and f["tag"] == prop:
            sig = "%s:edges:%s" % (prop, f["why"])
            k = (sig, f["edge"]["op"], json.dumps(f["edge"]["pre"]))
            if k in seen: continue
            seen.add(k)
            res.violation(sig, "%s when opcode 0x%02x is forced in state %s [%s, path %s]" % (
                f["why"], f["edge"]["op"], json.dumps(f["edge"]["pre"]), f["config"], [x[0] for x in f["edge"]["path"]]),
                {"stage": "edges", "edge": f["edge"], "property": prop, "reason": f["why"]})
        elif f["kind"] == "D":
            res.drift.append({"tag": f["tag"], "why": f["why"], "job": f["config"], "event": "forced 0x%02x in %s" % (f["edge"]["op"], json.dumps(f["edge"]["pre"]))})
    cov = ed["coverage"]
    res.coverage["traces_validated_against_impl"] = res.coverage.get("traces_validated_against_impl", 0) + cov["edges"]
    res.coverage["forced_choice_edges"] = cov
    res.samples.extend(ed["samples"][:2])

GUARD_PROPS = ("C01", "C02", "C03", "C05", "C10", "C17")

def add_guards(res, gs, prop):
    seen = set()
    for f in gs["findings"]:
        if f["kind"] == "V" and f["tag"] == prop:
            sig = "%s:guards:%s" % (prop, f["why"])
            k = (sig, f["edge"]["op"], json.dumps(f["edge"]["pre"]))
            if k in seen: continue
            seen.add(k)
            res.violation(sig, "%s when opcode 0x%02x is forced from the constructed abstract state %s [%s]" % (
                f["why"], f["edge"]["op"], json.dumps(f["edge"]["pre"]), f["config"]),
                {"stage": "edges", "edge": f["edge"], "property": prop, "reason": f["why"]})
    for dr in gs["drift"][:5]:
        res.drift.append({"tag": "guard-table", "why": "enabled set differs from the model: impl-only %s model-only %s" % (dr["impl_only"], dr["model_only"]),
                          "job": dr["config"], "event": "state %s" % dr["state"]})
    cov = gs["coverage"]
    res.coverage["guard_table_conformance"] = cov
    res.coverage["traces_validated_against_impl"] = res.coverage.get("traces_validated_against_impl", 0) + cov["abstract_states_compared"]

BYTES_PROPS = ("C01", "C02", "C03", "C04", "C05", "C06", "C10", "C11")

def add_bytes(res, bs, prop):
    seen = set()
    for f in bs["findings"]:
        if f["kind"] == "V" and f["tag"] == prop:
            sig = "%s:bytes:%s" % (prop, f["why"])
            k = (sig, f["job"]["id"])
            if k in seen: continue
            seen.add(k)
            res.violation(sig, "%s at opcode %d of generation [%s]" % (f["why"], f["event"], job_brief(f["job"])),
                          {"stage": "tracegen", "job": dict(f["job"], rec=True), "event": f["event"], "property": prop, "reason": f["why"]})
    cov = bs["coverage"]
    res.coverage["traces_validated_against_impl"] = res.coverage.get("traces_validated_against_impl", 0) + cov["runs"]
    res.coverage["byte_level_validation"] = cov
    res.coverage["trace_validation_tlc_states"] = res.coverage.get("trace_validation_tlc_states", 0) + cov["tlc_states"]

def generic_tracegen_check(prop, mc_names, extra_notes=(), edges=False):
    def fn(tier_):
        res = Result(prop)
        tg = stages.tracegen_stage(tier_, tree_key())
        add_tracegen(res, tg, prop)
        if edges:
            add_edges(res, stages.edges_stage(tier_, tree_key()), prop)
        if prop in BYTES_PROPS:
            add_bytes(res, stages.bytes_stage(tier_, tree_key()), prop)
        if prop in GUARD_PROPS:
            add_guards(res, stages.guards_stage(tier_, tree_key()), prop)
        if mc_names:
            add_mc(res, tier_, mc_names)
        res.assumptions = ASSUME_TRACE + (ASSUME_MC if mc_names else [])
        res.notes.extend(extra_notes)
        return res
    return fn

MC_SAFETY = ["MC_RunQuick", "MC_RunThorough", "MC_RunDeep", "MC_Step", "MC_StepDeep", "MC_StepMemo"]
MC_RUNS_ONLY = ["MC_RunQuick", "MC_RunThorough", "MC_RunDeep"]

CHECKS = {
    "C01": generic_tracegen_check("C01", MC_SAFETY, edges=True),
    "C02": generic_tracegen_check("C02", MC_SAFETY, edges=True),
    "C03": generic_tracegen_check("C03", MC_SAFETY, edges=True),
    "C04": generic_tracegen_check("C04", [], edges=True),
    "C05": generic_tracegen_check("C05", MC_SAFETY, edges=True),
    "C06": generic_tracegen_check("C06", MC_RUNS_ONLY),
    "C10": generic_tracegen_check("C10", MC_RUNS_ONLY, edges=True),
    "C11": generic_tracegen_check("C11", MC_RUNS_ONLY + ["MC_Live", "MC_LiveQuick"], edges=True),
    "C17": generic_tracegen_check("C17", MC_SAFETY, edges=True),
}

# ---------------------------------------------------------------------------
# history-based properties (TraceHistory.tla)
from . import hist

def add_hist(res, st, prop, stage_name, describe):
    n = 0
    for f in st["findings"]:
        if f["kind"] == "V" and f["tag"] == prop:
            n += 1
            sig, desc, replay = describe(f)
            res.violation("%s:%s:%s" % (prop, stage_name, sig), desc, dict(replay, stage=stage_name, property=prop, reason=f["why"]))
        elif f["kind"] == "V":
            res.notes.append("finding for another property in this stage: %s %s" % (f["tag"], f["why"][:200]))
        elif f["kind"] == "D":
            res.drift.append({"tag": f["tag"], "why": f["why"], "job": stage_name, "event": f["line"]})
    cov = st["coverage"]
    res.coverage[stage_name] = cov
    res.coverage["traces_validated_against_impl"] = res.coverage.get("traces_validated_against_impl", 0) + sum(
        cov.get(k, 0) for k in ("call_sequences", "generations", "batches", "witness_generations_validated", "generators_measured", "cases"))
    res.coverage["trace_validation_tlc_states"] = res.coverage.get("trace_validation_tlc_states", 0) + cov.get("tlc_states", 0)
    res.samples.extend(st.get("samples", [])[:3])
    return n

def check_C08(tier_):
    res = Result("C08")
    st = hist.reuse_stage(tier_, tree_key())
    add_hist(res, st, "C08", "reuse", lambda f: ("result differs from a fresh generator",
             "%s [P%s cfg #%s]" % (f["why"], f["record"]["P"], f["record"]["cfg"]),
             {"record": f["record"], "spec": st["spec"]}))
    add_mc(res, tier_, ["MC_Life"])
    res.assumptions = ["fresh twin built by the harness with the same builder calls", "digest = FNV-1a 64 of the returned bytes plus length"] + ASSUME_MC
    return res

def check_C07(tier_):
    res = Result("C07")
    st = hist.determinism_stage(tier_, tree_key())
    add_hist(res, st, "C07", "determinism", lambda f: ("same configuration and input, different bytes",
             "%s [%s]" % (f["why"], json.dumps(f.get("job"))[:300]), {"record": f["record"], "job": f.get("job")}))
    add_mc(res, tier_, ["MC_Life"])
    res.assumptions = ["influence of wall clock / OS randomness / hash seeds / ASLR is only observable as run-to-run difference; sampled across 16 threads, separately spawned processes and rayon worker counts 1/2/16",
                       "in GenModel every choice is a function of (state, draw): no variable is shared between generator instances"]
    return res

def check_C09(tier_):
    res = Result("C09")
    st = hist.total_stage(tier_, tree_key())
    add_hist(res, st, "C09", "total", lambda f: ("generation call did not return a pickle",
             "%s [%s]" % (f["why"], json.dumps(f.get("batch"))[:400]), {"record": f["record"], "batch": f.get("batch")}))
    tg = stages.tracegen_stage(tier_, tree_key())
    add_tracegen(res, tg, "C09")
    add_mc(res, tier_, ["MC_RunQuick", "MC_RunThorough", "MC_Live", "MC_LiveQuick"])
    res.assumptions = ["panic / abort / stack-overflow freedom is decided by execution (child processes under a watchdog); the specification contributes termination of the design (MC_Live under weak fairness) and the call/return protocol",
                       "harness built with debug-assertions and overflow-checks on"]
    return res

def check_C12(tier_):
    res = Result("C12")
    st = hist.vocab_stage(tier_, tree_key())
    add_hist(res, st, "C12", "vocab", lambda f: ("opcode never produced", f["why"], {"record": f["record"]}))
    res.assumptions = ["seed range is fixed (0..N-1 per protocol, default settings); opcode sets come from the emission hook and every witness generation is re-decoded by the TLA+ Lexer"]
    return res

def check_C14(tier_):
    res = Result("C14")
    st = hist.leak_stage(tier_, tree_key())
    def desc(f):
        r = f["record"] or {}
        sig = "cycle-closed-by-0x%02x" % r.get("cycle_op", 0) if r.get("cycle") else "leak-without-cycle"
        return sig, "%s [%s]" % (f["why"], job_brief(f["job"]) if f.get("job") else ""), {"record": r, "job": f.get("job")}
    add_hist(res, st, "C14", "leak", desc)
    hs = hist.heap_stage(tier_, tree_key())
    def hdesc(f):
        r = f["record"] or {}
        path = r.get("path", []) + ([r["op"]] if r.get("t") == "step" else [])
        return ("object-graph:P%s:%s" % (r.get("P"), "-".join("%02x" % b for b in path[-4:])),
                "%s [P%s, forced opcode path %s]" % (f["why"], r.get("P"), " ".join("%02x" % b for b in path)), {"record": r})
    add_hist(res, hs, "C14", "heap", hdesc)
    res.coverage["traces_validated_against_impl"] += hs["coverage"]["transitions_validated_against_Heap_tla"]
    add_mc(res, tier_, ["MC_Heap", "MC_HeapDeep", "MC_HeapStep"])
    res.assumptions = ["live heap measured by a counting global allocator in the harness process, single-threaded, after one warm-up generation per protocol",
                       "reference cycles are detected by the hook by walking the Rc graph from stack and memo roots after every event",
                       "Heap.tla (cells with identity, strong edges; NoCycle, Unshared and MutatesOnlySlots for all opcode sequences up to 6 over the aliasing-relevant subset) is bound to the code transition by transition: Heap!Eff applied to a recorded heap of the real generator must give the recorded next heap up to the names of fresh cells (TraceHeap.tla), for every transition out of every object-graph shape the breadth-first walk reaches up to the logged depth",
                       "the breadth-first walk de-duplicates on a colour-refinement hash of the graph shape: a collision loses coverage, never soundness; the verdict is NoCycle evaluated on the real object graph and the allocator balance after drop"]
    return res

CHECKS.update({"C07": check_C07, "C08": check_C08, "C09": check_C09, "C12": check_C12, "C14": check_C14})

def check_C12_full(tier_):
    res = check_C12(tier_)
    rs = stages.reach_stage(tier_, tree_key())
    res.coverage["states"] = sum(r["distinct_states"] for r in rs["model_runs"])
    res.coverage["transitions"] = sum(r["states_generated"] for r in rs["model_runs"])
    res.coverage["model_checking_runs"] = rs["model_runs"]
    res.coverage["model_witnesses_replayed_into_implementation"] = rs["replayed"]
    res.coverage["opcodes_with_replayed_model_witness_per_protocol"] = {P: len(v) for P, v in rs["ok_pairs"].items()}
    res.coverage["traces_validated_against_impl"] += rs["replayed"]
    for f in rs["failed_same_protocol"]:
        res.drift.append({"tag": "witness", "why": "model witness for opcode 0x%02x is not executable in the implementation (step %d of %s)" % (f["op"], f["failed_at"], f["path"]),
                          "job": "P%d" % f["P"], "event": f["failed_at"]})
    res.samples.extend(rs["samples"][:3])
    res.assumptions.append("design-level reachability (MC_Reach: shortest witness per opcode, restricted constructor alphabet) is replayed through the forced-choice hook; a failed replay is drift, the verdict is the seed scan")
    return res
CHECKS["C12"] = check_C12_full

# ---------------------------------------------------------------------------
# direct-call properties (TraceCalls.tla)
def add_calls(res, st, prop):
    seen = set()
    for f in st["findings"]:
        if f["kind"] == "V" and f["tag"] == prop:
            r = f["record"]
            what = r.get("m") or "mutator %s.%s" % (r.get("mut"), r.get("meth"))
            sig = "%s:calls:%s:%s" % (prop, what, f["why"][:60])
            if sig in seen: continue
            seen.add(sig)
            res.violation(sig, "%s" % f["why"][:400], {"stage": "calls", "record": r, "property": prop, "reason": f["why"]})
    cov = st["coverage"]
    res.coverage["direct_calls"] = cov
    res.coverage["evaluations"] = cov["entropy_calls"] + cov["mutator_calls"]
    res.coverage["trace_validation_tlc_states"] = res.coverage.get("trace_validation_tlc_states", 0) + cov["tlc_states"]
    res.samples.extend(st["samples"][:4])

def check_C15(tier_):
    res = Result("C15")
    tg = stages.tracegen_stage(tier_, tree_key())
    add_tracegen(res, tg, "C15")
    st = hist.calls_stage(tier_, tree_key())
    add_calls(res, st, "C15")
    res.coverage["traces_validated_against_impl"] += st["coverage"]["mutator_calls"]
    add_mc(res, tier_, ["MC_Mut"])
    res.assumptions = ["whole-generation evidence: hook notes which mutator changed which value and whether emitted bytes were rewritten; direct-call evidence: every mutator method called at rate 0.0 / 0.5 / 1.0 with PRNG and fuzzer-bytes sources incl. empty, all-0x00, all-0xff, NaN / -inf bit patterns",
                       "MC_Mut abstracts the probability draw to classes; its gate is the repaired one (PinnedGate = FALSE)"]
    return res

def exploration_check(prop, rule):
    def fn(tier_):
        res = Result(prop)
        res.level = "exploration"
        st = hist.calls_stage(tier_, tree_key())
        add_calls(res, st, prop)
        cov = st["coverage"]
        res.coverage["distinct_nontrivial"] = cov["distinct_entropy_cases"] if prop == "C18" else cov["distinct_mutation_results"]
        res.coverage["evaluations"] = cov["entropy_calls"] if prop == "C18" else cov["mutator_calls"]
        res.coverage["rule"] = rule
        res.coverage["exhaustive"] = False
        if prop == "C16":
            tg = stages.tracegen_stage(tier_, tree_key())
            res.coverage["whole_generations_with_mutators_validated"] = tg["coverage"]["runs"]
        res.assumptions = ["TLC is used as a contract oracle over an enumerated case grid (no state machine to explore); the contracts are the TLA+ predicates of TraceCalls.tla"]
        return res
    return fn

CHECKS["C15"] = check_C15
CHECKS["C16"] = exploration_check("C16", "every Mutator method of the 7 mutators (memo-index and type-confusion in safe and unsafe mode) x boundary grid of i32/i64/f64/usize values (MIN, MIN+1, -1, 0, 1, MAX-1, MAX, every single-bit value) + sampled values + strings/byte strings (empty, 1 item, multi-byte UTF-8, 64 items) + 42 emitted-opcode shapes for the post-emission hook x entropy sources (empty, 0x00.., 0xff.., NaN/-inf patterns, random bytes, PRNG states) x rate {0, 0.5, 1}; a case is non-trivial when the mutator fired, distinct by (mutator, mode, method, input, output)")
CHECKS["C18"] = exploration_check("C18", "choose_index(n) and gen_range(a,b) over the grid {0,1,2,3,94,95,255,256,257,65535,65536,65537,2^31-1,2^32,usize::MAX-1,usize::MAX,1000} x every fuzzer byte string of length <= 1, sampled (quick) or all (thorough) strings of length 2, sampled strings of length 3..16, PRNG states; gen_ascii_char, gen_bytes, scalar draws on every source; contracts for all, exact predicted result and bytes consumed for arguments below 2^24; non-trivial = n > 0, distinct by (method, arguments, source)")

def check_C13(tier_):
    res = Result("C13")
    st = hist.front_stage(tier_, tree_key())
    add_hist(res, st, "C13", "front", lambda f: (f["why"][:50], "%s" % f["why"][:500], {"record": f["record"]}))
    add_mc(res, tier_, ["MC_Life"])
    res.assumptions = ["chosen reading: --unsafe-mutations and --mutation-rate qualify the mutator list and are inert without --mutators (src/main.rs applies them together)",
                       "cases without a seed have no library counterpart and are not generated",
                       "Frontend!CliConfig / PyConfig is the specification of what the options denote; the driver's own mapping is checked against it by TLC (drift if different)"]
    return res
CHECKS["C13"] = check_C13

_c10_core = CHECKS["C10"]
def check_C10_full(tier_):
    """C10 also at the front ends: the opcodes of what the CLI / batch mode / action wrapper wrote, against the flags the options denote"""
    res = _c10_core(tier_)
    st = hist.front_stage(tier_, tree_key())
    add_hist(res, st, "C10", "front", lambda f: (f["why"][:50], "%s" % f["why"][:500], {"record": {k: v for k, v in (f["record"] or {}).items() if k != "gotb"}}))
    return res
CHECKS["C10"] = check_C10_full

_c05_core = CHECKS["C05"]
def check_C05_full(tier_):
    """C05 also on what the front ends write (header and vocabulary of the protocol the options denote)"""
    res = _c05_core(tier_)
    st = hist.front_stage(tier_, tree_key())
    add_hist(res, st, "C05", "front", lambda f: (f["why"][:50], "%s" % f["why"][:500], {"record": {k: v for k, v in (f["record"] or {}).items() if k != "gotb"}}))
    return res
CHECKS["C05"] = check_C05_full

_c06_core = CHECKS["C06"]
def check_C06_full(tier_):
    """C06 also on the files the front ends write (FRAME must span exactly the rest of the file)"""
    res = _c06_core(tier_)
    st = hist.front_stage(tier_, tree_key())
    add_hist(res, st, "C06", "front", lambda f: (f["why"][:50], "%s" % f["why"][:500], {"record": {k: v for k, v in (f["record"] or {}).items() if k != "gotb"}}))
    return res
CHECKS["C06"] = check_C06_full
