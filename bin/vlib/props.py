"""per-property composition of stage results into verdicts and evidence"""
import json, os, re, time
from .util import *
from . import stages

TRACEGEN_PROPS = ["C01", "C02", "C03", "C04", "C05", "C06", "C10", "C11", "C15", "C17", "C09"]

class Result:
    def __init__(self, prop):
        self.prop = prop
        self.violations = []     # dicts: signature, desc, replay
        self.coverage = {}
        self.samples = []
        self.assumptions = []
        self.level = "model_checking"
        self.notes = []
        self.drift = []
    def violation(self, signature, desc, replay):
        self.violations.append({"signature": signature, "desc": desc, "replay": replay})

def job_brief(job):
    c = job["cfg"]
    s = "P%d ops=%d..%d" % (c["P"], c["min"], c["max"])
    if c["muts"]: s += " muts=%s rate=%s" % (",".join(c["muts"]), c["rate"])
    if c["unsafe"]: s += " unsafe"
    if c["ext"]: s += " ext"
    if c["buf"]: s += " buf"
    s += " " + (("seed=%d" % job["seed"]) if job["mode"] == "seed" else ("bytes=%s/%d/seed %d" % (job.get("bkind"), job.get("blen", 0), job["seed"])))
    return s

def add_tracegen(res, tg, prop):
    """fold the findings of the TraceGen stage that belong to `prop` into res"""
    seen = set()
    n = 0
    for f in tg["findings"]:
        if f["kind"] == "V" and f["tag"] == prop:
            n += 1
            sig = "%s:tracegen:%s" % (prop, f["why"])
            k = (sig, f["job"]["id"])
            if k in seen:
                continue
            seen.add(k)
            res.violation(sig, "%s at event %d of generation [%s]" % (f["why"], f["event"], job_brief(f["job"])),
                          {"stage": "tracegen", "job": f["job"], "event": f["event"], "property": prop, "reason": f["why"]})
        elif f["kind"] == "D":
            res.drift.append({"tag": f["tag"], "why": f["why"], "job": job_brief(f["job"]), "event": f["event"]})
    cov = tg["coverage"]
    res.coverage.setdefault("traces_validated_against_impl", 0)
    res.coverage["traces_validated_against_impl"] += cov["runs"]
    res.coverage["trace_events_validated"] = cov["events"]
    res.coverage["trace_validation_tlc_states"] = cov["tlc_states"]
    res.coverage["tracegen"] = cov
    res.samples.extend(tg["samples"][:3])
    return n

# ---------------------------------------------------------------------------
KNOWN = os.path.join(VERIF, "known_findings.json")

def load_known():
    try:
        return json.load(open(KNOWN))
    except FileNotFoundError:
        return {"findings": [], "fixed": []}

def add_mc(res, tier_, names):
    """model-checking runs of the design that serve this property"""
    runs = stages.mc_stage(tier_, names)
    res.coverage["states"] = res.coverage.get("states", 0) + sum(r["distinct"] for r in runs)
    res.coverage["transitions"] = res.coverage.get("transitions", 0) + sum(r["generated"] for r in runs)
    res.coverage["model_checking_runs"] = [
        {"config": r["name"], "distinct_states": r["distinct"], "states_generated": r["generated"], "wall_s": r["wall_s"],
         "cached": r.get("_cache_hit", False), "actions_taken": r["coverage_by_action"]} for r in runs]

def finish(res, tier_, wall):
    known = load_known()
    os.makedirs(EVIDENCE, exist_ok=True)
    rdir = os.path.join(WORK, "replay"); os.makedirs(rdir, exist_ok=True)
    new, listed = [], []
    for v in res.violations:
        hit = None
        for k in known.get("findings", []):
            if k["property"] == res.prop and re.fullmatch(k["signature"], v["signature"]):
                hit = k; break
        (listed if hit else new).append((v, hit))
    lines = []
    shown = set()
    for v, k in listed:
        if k["id"] not in shown:
            shown.add(k["id"])
            lines.append("KNOWN-FINDING: property=%s %s" % (res.prop, k["what"]))
    for i, (v, _) in enumerate(new[:20]):
        p = os.path.join(rdir, "%s_%s_%d.json" % (res.prop, tier_, i))
        json.dump(v["replay"], open(p, "w"), indent=1)
        lines.append("VIOLATION property=%s replay=%s  # %s" % (res.prop, p, v["desc"]))
    for d in res.drift[:10]:
        lines.append("MODEL-DRIFT property=%s %s: %s [%s event %s]" % (res.prop, d["tag"], d["why"][:300], d["job"], d["event"]))
    cov = dict(res.coverage)
    cov.setdefault("samples", res.samples[:6] or [{"note": "no sample recorded"}])
    if res.level == "model_checking":
        cov.setdefault("states", 0); cov.setdefault("transitions", 0); cov.setdefault("traces_validated_against_impl", 0)
    cov["drift_records"] = len(res.drift)
    cov["violations_found"] = [v["desc"] for v, _ in new[:20]]
    cov["known_findings_matched"] = sorted(shown)
    ev = {"property_id": res.prop, "tier": tier_, "seed": seed(), "level": res.level, "coverage": cov,
          "assumptions": res.assumptions, "wall_s": round(wall, 2), "violations": len(new), "notes": res.notes}
    tmp = os.path.join(EVIDENCE, res.prop + ".json.tmp")
    json.dump(ev, open(tmp, "w"), indent=1)
    os.replace(tmp, os.path.join(EVIDENCE, res.prop + ".json"))
    for l in lines:
        print(l)
    print("%s property=%s tier=%s wall=%.1fs" % ("FAIL" if new else "PASS", res.prop, tier_, wall))
    prune_cache()
    return 1 if new else 0

def replay(prop, path):
    """re-run exactly the case of a replay file through the harness and TLC"""
    r = json.load(open(path))
    if r.get("stage") == "tracegen":
        build_harness()
        from . import tlc
        d = os.path.join(WORK, "replay_run"); os.makedirs(d, exist_ok=True)
        job = dict(r["job"]); job["id"] = 1
        jf = os.path.join(d, "job.json"); json.dump([job], open(jf, "w"))
        of = os.path.join(d, "trace.ndjson")
        run([PFV, "run-jobs", jf, of, "1"])
        res = tlc.run_trace_shards("replay", "TraceGen.tla", "TraceGen.cfg", [of])
        bad = False
        for vals, st, wall in res:
            for v in vals:
                if v and v[0] == "MSGS":
                    for m in v[1]:
                        print(m)
                        if m[0] == "V" and m[3] == prop: bad = True
        if bad:
            print("VIOLATION property=%s replay=%s" % (prop, path)); return 1
        print("replay: property %s holds on this case" % prop); return 0
    print("replay for stage %r: see the stage's own command in the replay file" % r.get("stage"))
    return 2

# ---------------------------------------------------------------------------
ASSUME_TRACE = ["hook events (cfg pickle_fuzzer_verif) report the generator's real output length, stack kinds and memo keys",
                "RefPVM/Lexer transcribe CPython pickletools.dis / pickle.py semantics correctly (differentially tested against pickletools in the self-test)"]
ASSUME_MC = ["exhaustive model-checking results transfer to the code only while trace validation reports no MODEL-DRIFT between GenCore guards/effects and the implementation"]

def add_edges(res, ed, prop):
    seen = set()
    for f in ed["findings"]:
        if f["kind"] == "V" and f["tag"] == prop:
            sig = "%s:edges:%s" % (prop, f["why"])
            k = (sig, f["edge"]["op"], json.dumps(f["edge"]["pre"]))
            if k in seen: continue
            seen.add(k)
            res.violation(sig, "%s when opcode 0x%02x is forced in state %s [%s, path %s]" % (
                f["why"], f["edge"]["op"], json.dumps(f["edge"]["pre"]), f["config"], [x[0] for x in f["edge"]["path"]]),
                {"stage": "edges", "edge": f["edge"], "property": prop, "reason": f["why"]})
        elif f["kind"] == "D":
            res.drift.append({"tag": f["tag"], "why": f["why"], "job": f["config"], "event": "forced 0x%02x in %s" % (f["edge"]["op"], json.dumps(f["edge"]["pre"]))})
    cov = ed["coverage"]
    res.coverage["traces_validated_against_impl"] = res.coverage.get("traces_validated_against_impl", 0) + cov["edges"]
    res.coverage["forced_choice_edges"] = cov
    res.samples.extend(ed["samples"][:2])

def generic_tracegen_check(prop, mc_names, extra_notes=(), edges=False):
    def fn(tier_):
        res = Result(prop)
        tg = stages.tracegen_stage(tier_, tree_key("tracegen-" + tier_ + str(seed())))
        add_tracegen(res, tg, prop)
        if edges:
            add_edges(res, stages.edges_stage(tier_, tree_key("edges-" + tier_ + str(seed()))), prop)
        if mc_names:
            add_mc(res, tier_, mc_names)
        res.assumptions = ASSUME_TRACE + (ASSUME_MC if mc_names else [])
        res.notes.extend(extra_notes)
        return res
    return fn

MC_SAFETY = ["MC_RunQuick", "MC_RunThorough", "MC_RunDeep", "MC_Step", "MC_StepDeep", "MC_StepMemo"]
MC_RUNS_ONLY = ["MC_RunQuick", "MC_RunThorough", "MC_RunDeep"]

CHECKS = {
    "C01": generic_tracegen_check("C01", MC_SAFETY, edges=True),
    "C02": generic_tracegen_check("C02", MC_SAFETY, edges=True),
    "C03": generic_tracegen_check("C03", MC_SAFETY, edges=True),
    "C04": generic_tracegen_check("C04", []),
    "C05": generic_tracegen_check("C05", MC_SAFETY),
    "C06": generic_tracegen_check("C06", MC_RUNS_ONLY),
    "C10": generic_tracegen_check("C10", MC_RUNS_ONLY),
    "C11": generic_tracegen_check("C11", MC_RUNS_ONLY + ["MC_Live"]),
    "C17": generic_tracegen_check("C17", MC_SAFETY, edges=True),
}
