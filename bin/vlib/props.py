"""per-property composition of stage results into verdicts and evidence"""
import json, os, re, time
from .util import *
from . import stages

TRACEGEN_PROPS = ["C01", "C02", "C03", "C04", "C05", "C06", "C10", "C11", "C15", "C17", "C09"]

class Result:
    def __init__(self, prop):
        self.prop = prop
        self.violations = []     # dicts: signature, desc, replay
        self.coverage = {}
        self.samples = []
        self.assumptions = []
        self.level = "model_checking"
        self.notes = []
        self.drift = []
    def violation(self, signature, desc, replay):
        self.violations.append({"signature": signature, "desc": desc, "replay": replay})

def job_brief(job):
    c = job["cfg"]
    s = "P%d ops=%d..%d" % (c["P"], c["min"], c["max"])
    if c["muts"]: s += " muts=%s rate=%s" % (",".join(c["muts"]), c["rate"])
    if c["unsafe"]: s += " unsafe"
    if c["ext"]: s += " ext"
    if c["buf"]: s += " buf"
    s += " " + (("seed=%d" % job["seed"]) if job["mode"] == "seed" else ("bytes=%s/%d/seed %d" % (job.get("bkind"), job.get("blen", 0), job["seed"])))
    return s

def add_tracegen(res, tg, prop):
    """fold the findings of the TraceGen stage that belong to `prop` into res"""
    seen = set()
    n = 0
    for f in tg["findings"]:
        if f["kind"] == "V" and f["tag"] == prop:
            n += 1
            sig = "%s:tracegen:%s" % (prop, f["why"])
            k = (sig, f["job"]["id"])
            if k in seen:
                continue
            seen.add(k)
            res.violation(sig, "%s at event %d of generation [%s]" % (f["why"], f["event"], job_brief(f["job"])),
                          {"stage": "tracegen", "job": f["job"], "event": f["event"], "property": prop, "reason": f["why"]})
        elif f["kind"] == "D":
            res.drift.append({"tag": f["tag"], "why": f["why"], "job": job_brief(f["job"]), "event": f["event"]})
    cov = tg["coverage"]
    res.coverage.setdefault("traces_validated_against_impl", 0)
    res.coverage["traces_validated_against_impl"] += cov["runs"]
    res.coverage["trace_events_validated"] = cov["events"]
    res.coverage["trace_validation_tlc_states"] = cov["tlc_states"]
    res.coverage["tracegen"] = cov
    res.samples.extend(tg["samples"][:3])
    return n
