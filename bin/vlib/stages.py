"""cached pipeline stages shared by the per-property checks"""
import json, os, time
from .util import *
from . import corpus, tlc, tlaval

def shard_lines(lines, nshards, weights):
    """greedy balance of lines over shards by weight (number of events)"""
    order = sorted(range(len(lines)), key=lambda i: -weights[i])
    bins = [[] for _ in range(nshards)]; load = [0] * nshards
    for i in order:
        b = load.index(min(load)); bins[b].append(i); load[b] += weights[i]
    return [sorted(b) for b in bins if b]

def summarize_cfg(c):
    return "P%d %d..%d muts=%s rate=%s%s%s%s" % (c["P"], c["min"], c["max"], ",".join(c["muts"]) or "-", c["rate"],
            " unsafe" if c["unsafe"] else "", " ext" if c["ext"] else "", " buf" if c["buf"] else "")

def tracegen_stage(tier_, key):
    """run the corpus through the real generator and validate every trace with TLC"""
    def compute(d):
        build_harness()
        jobs = corpus.tracegen_jobs(tier_)
        jf = os.path.join(d, "tracegen_jobs.json"); json.dump(jobs, open(jf, "w"))
        of = os.path.join(d, "tracegen_traces.ndjson")
        t0 = time.time()
        run([PFV, "run-jobs", jf, of, str(CORES)], timeout=7200)
        t_gen = time.time() - t0
        lines = open(of).read().split("\n"); lines = [l for l in lines if l]
        if len(lines) != len(jobs):
            raise ToolError("harness returned %d traces for %d jobs" % (len(lines), len(jobs)))
        weights = [l.count('"ph"') + 1 for l in lines]
        nsh = max(1, min(CORES - 2, len(lines) // 20 + 1))
        shards = shard_lines(lines, nsh, weights)
        files = []
        for i, ixs in enumerate(shards):
            p = os.path.join(d, "tracegen_shard%d.ndjson" % i)
            open(p, "w").write("\n".join(lines[j] for j in ixs) + "\n"); files.append(p)
        t0 = time.time()
        res = tlc.run_trace_shards("tracegen", "TraceGen.tla", "TraceGen.cfg", files, timeout=7200 if tier_ == "thorough" else 1500)
        t_tlc = time.time() - t0
        findings, done_runs, done_events, states = [], 0, 0, 0
        for vals, st, wall in res:
            states += st["distinct"]
            for v in vals:
                if v and v[0] == "MSGS":
                    for m in v[1]:
                        findings.append(m)
                elif v and v[0] == "DONE":
                    done_runs += v[1]; done_events += v[2]
        total_events = sum(w - 1 for w in weights)
        if done_runs != len(jobs) or done_events != total_events:
            raise ToolError("trace validation incomplete: TLC consumed %d/%d runs, %d/%d events"
                            % (done_runs, len(jobs), done_events, total_events))
        byid = {j["id"]: j for j in jobs}
        out = []
        for m in findings:
            kind, rid, evix, tag, why = m[0], m[1], m[2], m[3], m[4]
            out.append({"kind": kind, "job": byid[rid], "event": evix, "tag": tag, "why": why if isinstance(why, str) else json.dumps(why)})
        # coverage summary
        cov = {"runs": len(jobs), "events": total_events, "tlc_states": states,
               "safe_runs": sum(1 for j in jobs if not j["cfg"]["unsafe"] and not j["cfg"]["mut_unsafe"]),
               "unsafe_runs": sum(1 for j in jobs if j["cfg"]["unsafe"] or j["cfg"]["mut_unsafe"]),
               "bytes_mode_runs": sum(1 for j in jobs if j["mode"] == "bytes"),
               "distinct_configs": len({json.dumps(j["cfg"], sort_keys=True) for j in jobs}),
               "max_events_in_a_run": max(weights) - 1,
               "gen_wall_s": round(t_gen, 1), "tlc_wall_s": round(t_tlc, 1), "shards": len(files)}
        # a few sample traces, decoded
        samples = []
        for l in lines[:: max(1, len(lines) // 4)][:4]:
            r = json.loads(l)
            samples.append({"cfg": summarize_cfg(byid[r["id"]]["cfg"]), "mode": byid[r["id"]]["mode"], "seed": byid[r["id"]]["seed"],
                            "bytes_hex": bytes(r["bytes"]).hex()[:160], "n_events": len(r["ev"]),
                            "claimed_opcodes": [e["op"] for e in r["ev"] if e["op"] >= 0][:40]})
        return {"findings": out, "coverage": cov, "samples": samples}
    return cached(key, "tracegen_" + tier_, compute)
