"""cached pipeline stages shared by the per-property checks"""
import json, os, time
from .util import *
from . import corpus, tlc, tlaval

def shard_lines(lines, nshards, weights):
    """greedy balance of lines over shards by weight (number of events)"""
    order = sorted(range(len(lines)), key=lambda i: -weights[i])
    bins = [[] for _ in range(nshards)]; load = [0] * nshards
    for i in order:
        b = load.index(min(load)); bins[b].append(i); load[b] += weights[i]
    return [sorted(b) for b in bins if b]

def summarize_cfg(c):
    return "P%d %d..%d muts=%s rate=%s%s%s%s" % (c["P"], c["min"], c["max"], ",".join(c["muts"]) or "-", c["rate"],
            " unsafe" if c["unsafe"] else "", " ext" if c["ext"] else "", " buf" if c["buf"] else "")

def tracegen_stage(tier_, key):
    """run the corpus through the real generator and validate every trace with TLC"""
    def compute(d):
        build_harness()
        jobs = corpus.tracegen_jobs(tier_)
        jf = os.path.join(d, "tracegen_jobs.json"); json.dump(jobs, open(jf, "w"))
        of = os.path.join(d, "tracegen_traces.ndjson")
        t0 = time.time()
        run([PFV, "run-jobs", jf, of, str(CORES)], timeout=7200)
        t_gen = time.time() - t0
        lines = open(of).read().split("\n"); lines = [l for l in lines if l]
        if len(lines) != len(jobs):
            raise ToolError("harness returned %d traces for %d jobs" % (len(lines), len(jobs)))
        weights = [l.count('"ph"') + 1 for l in lines]
        nsh = max(1, min(CORES - 2, len(lines) // 20 + 1))
        shards = shard_lines(lines, nsh, weights)
        files = []
        for i, ixs in enumerate(shards):
            p = os.path.join(d, "tracegen_shard%d.ndjson" % i)
            open(p, "w").write("\n".join(lines[j] for j in ixs) + "\n"); files.append(p)
        t0 = time.time()
        res = tlc.run_trace_shards("tracegen", "TraceGen.tla", "TraceGen.cfg", files, timeout=7200 if tier_ == "thorough" else 1500)
        t_tlc = time.time() - t0
        findings, done_runs, done_events, states = [], 0, 0, 0
        for vals, st, wall in res:
            states += st["distinct"]
            for v in vals:
                if v and v[0] == "MSGS":
                    for m in v[1]:
                        findings.append(m)
                elif v and v[0] == "DONE":
                    done_runs += v[1]; done_events += v[2]
        total_events = sum(w - 1 for w in weights)
        if done_runs != len(jobs) or done_events != total_events:
            raise ToolError("trace validation incomplete: TLC consumed %d/%d runs, %d/%d events"
                            % (done_runs, len(jobs), done_events, total_events))
        byid = {j["id"]: j for j in jobs}
        out = []
        for m in findings:
            kind, rid, evix, tag, why = m[0], m[1], m[2], m[3], m[4]
            out.append({"kind": kind, "job": byid[rid], "event": evix, "tag": tag, "why": why if isinstance(why, str) else json.dumps(why)})
        # coverage summary
        cov = {"runs": len(jobs), "events": total_events, "tlc_states": states,
               "safe_runs": sum(1 for j in jobs if not j["cfg"]["unsafe"] and not j["cfg"]["mut_unsafe"]),
               "unsafe_runs": sum(1 for j in jobs if j["cfg"]["unsafe"] or j["cfg"]["mut_unsafe"]),
               "bytes_mode_runs": sum(1 for j in jobs if j["mode"] == "bytes"),
               "distinct_configs": len({json.dumps(j["cfg"], sort_keys=True) for j in jobs}),
               "max_events_in_a_run": max(weights) - 1,
               "gen_wall_s": round(t_gen, 1), "tlc_wall_s": round(t_tlc, 1), "shards": len(files)}
        # a few sample traces, decoded
        samples = []
        for l in lines[:: max(1, len(lines) // 4)][:4]:
            r = json.loads(l)
            samples.append({"cfg": summarize_cfg(byid[r["id"]]["cfg"]), "mode": byid[r["id"]]["mode"], "seed": byid[r["id"]]["seed"],
                            "bytes_hex": bytes(r["bytes"]).hex()[:160], "n_events": len(r["ev"]),
                            "claimed_opcodes": [e["op"] for e in r["ev"] if e["op"] >= 0][:40]})
        return {"findings": out, "coverage": cov, "samples": samples}
    return cached(key, "tracegen_%s_%d" % (tier_, seed()), compute)

# ---------------------------------------------------------------------------
# model checking of the design (depends on the spec only, not on /repo)

MC_RUNS = {
    # name: (module, cfg, tiers, workers, expect)
    "MC_RunQuick":    ("MC_Run.tla", "MC_RunQuick.cfg", ("quick",), 12),
    "MC_RunThorough": ("MC_Run.tla", "MC_RunThorough.cfg", ("thorough",), 14),
    "MC_RunDeep":     ("MC_Run.tla", "MC_RunDeep.cfg", ("thorough",), 14),
    "MC_Life":        ("MC_Run.tla", "MC_Life.cfg", ("quick", "thorough"), 8),
    "MC_Live":        ("MC_Run.tla", "MC_Live.cfg", ("thorough",), 12),
    "MC_Step":        ("MC_StepDefs.tla", "MC_Step.cfg", ("quick",), 12),
    "MC_StepDeep":    ("MC_StepDefs.tla", "MC_StepDeep.cfg", ("thorough",), 14),
    "MC_StepMemo":    ("MC_StepDefs.tla", "MC_StepMemo.cfg", ("quick", "thorough"), 12),
    "MC_Mut":         ("MC_Mut.tla", "MC_Mut.cfg", ("quick", "thorough"), 8),
    "MC_Heap":        ("Heap.tla", "MC_Heap.cfg", ("quick", "thorough"), 8),
}

def spec_key(extra=""):
    import hashlib
    h = hashlib.sha256()
    for f in sorted(os.listdir(SPEC)):
        if f.endswith((".tla", ".cfg")):
            h.update(f.encode()); h.update(open(os.path.join(SPEC, f), "rb").read())
    return "spec-" + h.hexdigest()[:20]

def parse_coverage(out):
    """per-action counts from `-coverage 1` output: {action: (distinct, total)}"""
    import re
    cov = {}
    for m in re.finditer(r"<(\w+) line \d+, col \d+ to line \d+, col \d+ of module (\w+)>: (\d+):(\d+)", out):
        cov[m.group(1)] = (int(m.group(3)), int(m.group(4)))
    return cov

def mc_run(name):
    module, cfg, tiers, workers = MC_RUNS[name]
    def compute(d):
        sd = tlc.stage_dir("mc_" + name)
        rc, out, wall = tlc.run_tlc(sd, module, cfg, workers=workers, xmx="12g", timeout=5400, extra=("-coverage", "1"))
        st = tlc.stats(out)
        ok = "Model checking completed. No error has been found." in out
        viol = [l for l in out.split("\n") if l.startswith("Error: Invariant") or "Temporal properties were violated" in l]
        if st is None or (not ok and not viol):
            raise ToolError("TLC failed on %s:\n%s" % (name, out[-3000:]))
        cov = parse_coverage(out)
        return {"name": name, "ok": ok, "violations": viol, "generated": st["generated"], "distinct": st["distinct"],
                "wall_s": round(wall, 1), "coverage_by_action": {k: v[1] for k, v in cov.items()},
                "tail": out[-1500:] if not ok else ""}
    return cached(spec_key(), "mc_" + name, compute)

def mc_stage(tier_, names):
    res = []
    for n in names:
        if tier_ in MC_RUNS[n][2]:
            r = mc_run(n)
            if not r["ok"]:
                raise ToolError("model checking of the committed specification failed (%s): %s\n%s" % (n, r["violations"], r.get("tail", "")))
            # vacuity guard: every action of the model must have fired
            dead = [a for a, c in r["coverage_by_action"].items() if c == 0 and a not in ("Reset", "Rewrite")]
            if dead:
                raise ToolError("vacuous model checking run %s: actions never taken: %s" % (n, dead))
            res.append(r)
    return res

# ---------------------------------------------------------------------------
# systematic enumeration of the implementation's decision tree (forced-choice hook)

def edge_configs(tier_):
    seeds = [sub_seed("edges", i) % (1 << 32) for i in range(6)]
    def ec(P, depth, ext=False, buf=False, unsafe=False, tag=""):
        return {"cfg": corpus.cfg(P, 0, 0, ext=ext, buf=buf, unsafe=unsafe), "depth": depth, "seeds": seeds,
                "tag": tag or "P%d%s%s d%d" % (P, "+ext" if ext else "", "+buf" if buf else "", depth)}
    if tier_ == "quick":
        return [ec(5, 3, True, True), ec(5, 2), ec(4, 2, True, False), ec(3, 2), ec(2, 2, True, False), ec(1, 3), ec(0, 3)]
    return [ec(5, 4, True, True), ec(5, 3), ec(4, 3, True, False), ec(4, 3), ec(3, 3, True, False), ec(2, 3, True, False),
            ec(2, 3), ec(1, 4), ec(0, 5)]

def edges_stage(tier_, key):
    def compute(d):
        build_harness()
        cfgs = edge_configs(tier_)
        cf = os.path.join(d, "edge_cfgs.json"); json.dump(cfgs, open(cf, "w"))
        prefix = os.path.join(d, "edges_")
        t0 = time.time()
        p = run([PFV, "edges", cf, prefix], timeout=7200)
        summary = json.loads(p.stdout.strip().split("\n")[-1])
        t_gen = time.time() - t0
        files, chunk = [], 4000
        samples = []
        for s in summary:
            lines = [l for l in open(s["file"]).read().split("\n") if l]
            if lines:
                r = json.loads(lines[len(lines) // 2])
                samples.append({"config": s["tag"], "path": [x[0] for x in r["path"]], "forced_opcode": r["op"],
                                "emitted_hex": bytes(r["bytes"]).hex()[:60], "pre": r["pre"], "post": r["post"]})
            for i in range(0, len(lines), chunk):
                fp = "%s.part%d" % (s["file"], i // chunk)
                open(fp, "w").write("\n".join(lines[i:i + chunk]) + "\n"); files.append((fp, s["tag"], i))
            os.remove(s["file"])
        t0 = time.time()
        res = tlc.run_trace_shards("edges", "TraceEdges.tla", "TraceEdges.cfg", [f[0] for f in files], timeout=7200)
        t_tlc = time.time() - t0
        findings, done, states = [], 0, 0
        for (fp, tag, base), (vals, st, wall) in zip(files, res):
            states += st["distinct"]
            lines = None
            for v in vals:
                if v and v[0] == "MSGS":
                    for m in v[1]:
                        if lines is None:
                            lines = open(fp).read().split("\n")
                        edge = json.loads(lines[m[1] - 1])
                        findings.append({"kind": m[0], "tag": m[2], "why": m[3] if isinstance(m[3], str) else json.dumps(m[3]),
                                         "config": tag, "edge": {k: edge[k] for k in ("cfg", "path", "op", "seed", "bytes", "pre", "post")}})
                elif v and v[0] == "DONE":
                    done += v[1]
        total = sum(s["edges"] for s in summary)
        if done != total:
            raise ToolError("edge validation incomplete: TLC consumed %d of %d edges" % (done, total))
        for fp, _, _ in files:
            os.remove(fp)
        return {"findings": findings[:2000], "n_findings": len(findings),
                "coverage": {"configs": [{"config": s["tag"], "states_expanded": s["states"], "edges": s["edges"]} for s in summary],
                             "edges": total, "states_expanded": sum(s["states"] for s in summary), "tlc_states": states,
                             "gen_wall_s": round(t_gen, 1), "tlc_wall_s": round(t_tlc, 1), "exhaustive_to_depth": True},
                "samples": samples[:4]}
    return cached(key, "edges_%s_%d" % (tier_, seed()), compute)

# ---------------------------------------------------------------------------
# C12 at design level: shortest reachability witnesses from the model, replayed into the code

REACH_RUNS = {"MC_Reach0": ("quick", "thorough"), "MC_Reach5q": ("quick",), "MC_Reach15": ("thorough",)}

def reach_run(name):
    def compute(d):
        sd = tlc.stage_dir("mc_" + name)
        rc, out, wall = tlc.run_tlc(sd, "MC_Reach.tla", name + ".cfg", workers=1, xmx="8g", timeout=5400)
        st = tlc.stats(out)
        if st is None or "Model checking completed. No error has been found." not in out:
            raise ToolError("TLC failed on %s:\n%s" % (name, out[-3000:]))
        wit = [v for v in tlaval.printed_values(out) if v and v[0] == "WITNESS"]
        return {"name": name, "generated": st["generated"], "distinct": st["distinct"], "wall_s": round(wall, 1),
                "witnesses": [{"P": w[1], "op": w[2], "path": w[3]} for w in wit if w[4] == "body"]}
    return cached(spec_key(), "mc_" + name, compute)

def reach_stage(tier_, key):
    runs = [reach_run(n) for n, tiers in REACH_RUNS.items() if tier_ in tiers]
    def compute(d):
        build_harness()
        jobs = []
        for r in runs:
            for w in r["witnesses"]:
                # a witness found for protocol p is also a path for every protocol whose table has all its opcodes
                for P in range(6):
                    jobs.append({"id": len(jobs) + 1, "cfg": corpus.cfg(P, 0, 0, ext=True, buf=True), "path": w["path"], "model_P": w["P"], "op": w["op"]})
        jf = os.path.join(d, "reach_jobs.json"); json.dump(jobs, open(jf, "w"))
        of = os.path.join(d, "reach_replay.ndjson")
        run([PFV, "replay-paths", jf, of], timeout=1800)
        res = {json.loads(l)["id"]: json.loads(l) for l in open(of) if l.strip()}
        ok, failed = {}, []
        for j in jobs:
            r = res[j["id"]]
            P = j["cfg"]["P"]
            if r["failed_at"] == 0:
                # the opcode actually written by the last step (the integer family picks its variant itself)
                ok.setdefault(P, {})[r["emitted"][-1] if r["emitted"] else j["op"]] = j["path"]
            elif P == j["model_P"]:
                failed.append({"P": P, "op": j["op"], "path": j["path"], "failed_at": r["failed_at"]})
        return {"replayed": len(jobs), "ok_pairs": {str(P): sorted(v) for P, v in ok.items()}, "failed_same_protocol": failed,
                "samples": [{"P": P, "op": op, "path": path} for P, v in ok.items() for op, path in list(v.items())[:2]][:6]}
    r = cached(key, "reach_%s" % tier_, compute)
    r["model_runs"] = [{"config": x["name"], "distinct_states": x["distinct"], "states_generated": x["generated"], "wall_s": x["wall_s"],
                        "witnesses": len(x["witnesses"])} for x in runs]
    return r
