"""cached pipeline stages shared by the per-property checks"""
import json, os, time, random
from .util import *
from . import corpus, tlc, tlaval

def shard_lines(lines, nshards, weights):
    """greedy balance of lines over shards by weight (number of events)"""
    order = sorted(range(len(lines)), key=lambda i: -weights[i])
    bins = [[] for _ in range(nshards)]; load = [0] * nshards
    for i in order:
        b = load.index(min(load)); bins[b].append(i); load[b] += weights[i]
    return [sorted(b) for b in bins if b]

def summarize_cfg(c):
    return "P%d %d..%d muts=%s rate=%s%s%s%s" % (c["P"], c["min"], c["max"], ",".join(c["muts"]) or "-", c["rate"],
            " unsafe" if c["unsafe"] else "", " ext" if c["ext"] else "", " buf" if c["buf"] else "")

def run_and_validate_traces(jobs, d, name, timeout):
    """real generations with the recorder on -> ndjson traces -> TLC (TraceGen) in shards"""
    jf = os.path.join(d, name + "_jobs.json"); json.dump(jobs, open(jf, "w"))
    of = os.path.join(d, name + "_traces.ndjson")
    t0 = time.time()
    run([PFV, "run-jobs", jf, of, str(CORES)], timeout=7200)
    t_gen = time.time() - t0
    lines = [l for l in open(of).read().split("\n") if l]
    if len(lines) != len(jobs):
        raise ToolError("harness returned %d traces for %d jobs" % (len(lines), len(jobs)))
    weights = [l.count('"ph"') + 1 for l in lines]
    nsh = max(1, min(CORES - 2, len(lines) // 20 + 1))
    shards = shard_lines(lines, nsh, weights)
    files = []
    for i, ixs in enumerate(shards):
        p = os.path.join(d, "%s_shard%d.ndjson" % (name, i))
        open(p, "w").write("\n".join(lines[j] for j in ixs) + "\n"); files.append(p)
    t0 = time.time()
    res = tlc.run_trace_shards(name, "TraceGen.tla", "TraceGen.cfg", files, timeout=timeout)
    t_tlc = time.time() - t0
    findings, done_runs, done_events, states = [], 0, 0, 0
    for vals, st, wall in res:
        states += st["distinct"]
        for v in vals:
            if v and v[0] == "MSGS":
                findings.extend(v[1])
            elif v and v[0] == "DONE":
                done_runs += v[1]; done_events += v[2]
    total_events = sum(w - 1 for w in weights)
    if done_runs != len(jobs) or done_events != total_events:
        raise ToolError("trace validation incomplete: TLC consumed %d/%d runs, %d/%d events" % (done_runs, len(jobs), done_events, total_events))
    for p in files: os.remove(p)
    return findings, lines, {"events": total_events, "states": states, "gen_wall_s": t_gen, "tlc_wall_s": t_tlc, "shards": len(files), "max_events": max(weights) - 1}

def tracegen_stage(tier_, key):
    """run the corpus through the real generator and validate every trace with TLC; where the
    implementation enables an opcode the model does not (drift), re-run that generation with the
    opcode FORCED at that step and validate the result (drift directs the search)"""
    def compute(d):
        build_harness()
        jobs = corpus.tracegen_jobs(tier_)
        tmo = 7200 if tier_ == "thorough" else 1500
        findings, lines, stt = run_and_validate_traces(jobs, d, "tracegen", tmo)
        byid = {j["id"]: j for j in jobs}
        lineof = {}
        out = []
        directed, seen_dir = [], {}
        for m in sorted(findings, key=lambda m: (byid[m[1]]["cfg"]["max"] > 600, )):
            kind, rid, evix, tag, why = m[0], m[1], m[2], m[3], m[4]
            out.append({"kind": kind, "job": byid[rid], "event": evix, "tag": tag, "why": why if isinstance(why, str) else json.dumps(why)})
            if kind == "D" and tag == "enabled" and not isinstance(why, str):
                extra = why[1].get("__set__", []) if isinstance(why[1], dict) else []
                if not extra: continue
                if not lineof:
                    for l in lines:
                        lineof[json.loads(l)["id"]] = l
                ev = json.loads(lineof[rid])["ev"]
                body_ix = sum(1 for e in ev[:evix - 1] if e["ph"] == 5)
                j = byid[rid]
                for op in extra:
                    k = (j["cfg"]["P"], j["cfg"]["unsafe"], j["cfg"]["ext"], j["cfg"]["buf"], op)
                    if seen_dir.get(k, 0) >= 3 or len(directed) >= 120: continue
                    seen_dir[k] = seen_dir.get(k, 0) + 1
                    dj = dict(j); dj["id"] = 1000000 + len(directed); dj["force"] = [[body_ix, op]]
                    directed.append(dj)
        # effect drift: the implementation changed its simulated state differently from the model.
        # Explore forward from (up to 3 of) those points: force typed / constructor opcodes for the next
        # three body steps, level by level (a forced opcode only takes effect when the implementation
        # enables it - read back from the trace), and validate every explored generation.
        TYPED = [0x61, 0x65, 0x73, 0x75, 0x90, 0x64, 0x93, 0x52, 0x81, 0x92, 0x62, 0x6f, 0x32, 0x30]
        CONS = [0x28, 0x4e, 0x29, 0x7d, 0x63, 0x5d, 0x8f, 0x74, 0x6c]
        INTFAM = {0x49, 0x4a, 0x4b, 0x4d, 0x4c, 0x8a, 0x8b}
        # short programs first: exploring from a 4 000-opcode generation costs thousands of long re-runs
        eff = sorted([m for m in findings if m[0] == "D" and m[3] == "effect"], key=lambda m: (byid[m[1]]["cfg"]["max"], m[1], m[2]))
        seen_eff, explored = set(), []
        for m in eff:
            rid, evix = m[1], m[2]
            j = byid[rid]
            if j["cfg"]["max"] > 600 and seen_eff: continue
            k = (j["cfg"]["P"], json.dumps(j["cfg"]["muts"]))
            if k in seen_eff or len(seen_eff) >= 3: continue
            seen_eff.add(k)
            if not lineof:
                for l in lines: lineof[json.loads(l)["id"]] = l
            ev = json.loads(lineof[rid])["ev"]
            b0 = sum(1 for e in ev[:evix] if e["ph"] == 5)       # body steps up to and including the drifting one
            frontier = [[]]
            for level in range(3):
                batch = []
                for path in frontier:
                    for op in TYPED + CONS:
                        dj = dict(j); dj["id"] = 2000000 + len(explored) + len(batch)
                        dj["force"] = [[b0 + i, o] for i, o in enumerate(path + [op])]
                        batch.append(dj)
                if not batch or len(explored) + len(batch) > (2500 if j["cfg"]["max"] <= 600 else 300): break
                jf = os.path.join(d, "explore_jobs.json"); json.dump(batch, open(jf, "w"))
                of = os.path.join(d, "explore_traces.ndjson")
                run([PFV, "run-jobs", jf, of, str(CORES)], timeout=3600)
                nxt = []
                for l, dj in zip([x for x in open(of).read().split("\n") if x], batch):
                    bodies = [e for e in json.loads(l)["ev"] if e["ph"] == 5]
                    want = dj["force"][-1]
                    took = len(bodies) > want[0] and (bodies[want[0]]["op"] == want[1] or (want[1] in INTFAM and bodies[want[0]]["op"] in INTFAM))
                    if took:
                        explored.append(dj)
                        if want[1] in CONS or want[1] in (0x32, 0x30): nxt.append([f[1] for f in dj["force"]])
                frontier = nxt[:40]
        directed.extend(explored)
        n_directed = len(directed)
        if directed:
            f2, _, st2 = run_and_validate_traces(directed, d, "tracegen_directed", tmo)
            byid2 = {j["id"]: j for j in directed}
            for m in f2:
                if m[0] == "V":
                    out.append({"kind": "V", "job": byid2[m[1]], "event": m[2], "tag": m[3], "why": (m[4] if isinstance(m[4], str) else json.dumps(m[4])) + " [forced opcode after drift]"})
            stt["events"] += st2["events"]; stt["states"] += st2["states"]
        cov = {"runs": len(jobs) + n_directed, "events": stt["events"], "tlc_states": stt["states"],
               "directed_runs_after_drift": n_directed,
               "safe_runs": sum(1 for j in jobs if not j["cfg"]["unsafe"] and not j["cfg"]["mut_unsafe"]),
               "unsafe_runs": sum(1 for j in jobs if j["cfg"]["unsafe"] or j["cfg"]["mut_unsafe"]),
               "bytes_mode_runs": sum(1 for j in jobs if j["mode"] == "bytes"),
               "distinct_configs": len({json.dumps(j["cfg"], sort_keys=True) for j in jobs}),
               "max_events_in_a_run": stt["max_events"],
               "gen_wall_s": round(stt["gen_wall_s"], 1), "tlc_wall_s": round(stt["tlc_wall_s"], 1), "shards": stt["shards"]}
        samples = []
        for l in lines[:: max(1, len(lines) // 4)][:4]:
            r = json.loads(l)
            samples.append({"cfg": summarize_cfg(byid[r["id"]]["cfg"]), "mode": byid[r["id"]]["mode"], "seed": byid[r["id"]]["seed"],
                            "bytes_hex": bytes(r["bytes"]).hex()[:160], "n_events": len(r["ev"]),
                            "claimed_opcodes": [e["op"] for i, e in enumerate(r["ev"]) if e["op"] >= 0 and i > 0 and e["len"] > r["ev"][i - 1]["len"]][:40]})
        return {"findings": out[:5000], "coverage": cov, "samples": samples}
    return cached(key, "tracegen_%s_%d" % (tier_, seed()), compute)

def bytes_jobs(tier_):
    q = tier_ == "quick"
    J = corpus.Jobs("bytes-" + tier_)
    for P in range(6):
        for _ in range(350 if q else 4000):
            J.seed_job(corpus.cfg(P), rec=False, deep=0)
        for _ in range(60 if q else 600):
            J.bytes_job(corpus.cfg(P), blen=3000, rec=False, deep=0)
            J.seed_job(corpus.cfg(P, ext=True, buf=True), rec=False, deep=0)
            J.seed_job(corpus.cfg(P, 60, 300, muts=corpus.MUTS, rate=0.5), rec=False, deep=0)
            J.seed_job(corpus.cfg(P, 60, 300, muts=corpus.MUTS, rate=0.5, unsafe=True, ext=True), rec=False, deep=0)
        # histories: the judged pickle is the 2nd .. 5th produced by one generator
        for k in range(150 if q else 1500):
            J.seed_job(corpus.cfg(P), rec=False, deep=0, warm=1 + k % 4, take_output=(k % 3 == 0))
        for k in range(30 if q else 300):
            J.bytes_job(corpus.cfg(P), blen=3000, rec=False, deep=0, warm=1 + k % 3)
            J.seed_job(corpus.cfg(P, 60, 300, muts=corpus.MUTS, rate=0.5), rec=False, deep=0, warm=1 + k % 3)
        # unsafe configurations with a mutator registered twice (both instances rewrite the same emission)
        for k in range(250 if q else 2500):
            J.seed_job(corpus.cfg(P, 60, 300, muts=corpus.DUP_LISTS[2] if k % 2 == 0 else corpus.DUP_LISTS[k % 4] + ["typeconfusion"],
                                  rate=1.0 if k % 4 < 2 else 0.5, unsafe=True), rec=False, deep=0)
        for kind in ("ff", "zero", "empty", "ramp"):
            J.bytes_job(corpus.cfg(P, ext=True, buf=True), kind=kind, blen=4000, rec=False, deep=0)
            J.bytes_job(corpus.cfg(P, 60, 300, muts=corpus.MUTS, rate=1.0, unsafe=True, ext=True, buf=True), kind=kind, blen=4000, rec=False, deep=0)
    # very long programs, judged with the depth-only reference machine
    deep = [(0, 25000), (1, 25000), (4, 45000)] if q else [(0, 25000), (1, 30000), (2, 45000), (3, 45000), (4, 60000), (5, 80000), (0, 60000)]
    for P, n in deep:
        J.seed_job(corpus.cfg(P, n, n + 1), rec=False, deep=1)
    # framed for sure (the frame coin is the first input bit) and well beyond 64 KiB of payload
    for P in (4, 5):
        data = [1] + [J.rng.randrange(256) for _ in range(200000)]
        J.bytes_job(corpus.cfg(P, 12000, 12001), data=data, rec=False, deep=1)
    return J.jobs

def bytes_stage(tier_, key):
    """many more (and much longer) generations validated at byte level only (TraceBytes.tla)"""
    def compute(d):
        build_harness()
        jobs = bytes_jobs(tier_)
        jf = os.path.join(d, "bytes_jobs.json"); json.dump(jobs, open(jf, "w"))
        of = os.path.join(d, "bytes_traces.ndjson")
        t0 = time.time()
        run([PFV, "run-jobs", jf, of, str(CORES)], timeout=7200)
        # process history: in ONE fresh process and ONE thread, the protocols (and flag settings) in descending and
        # in shuffled order - what the first generator of a process did must not leak into later ones
        hist_jobs = []
        rng2 = random.Random(sub_seed("bytes-order", tier_))
        n0 = max(j["id"] for j in jobs) + 1
        for order in (list(range(5, -1, -1)), rng2.sample(range(6), 6)):
            batch = []
            for P in order:
                for k in range(4 if tier_ == "quick" else 20):
                    batch.append({"id": n0 + len(hist_jobs) + len(batch), "cfg": corpus.cfg(P, ext=bool(k % 2), buf=bool(k % 3 == 0)), "mode": "seed",
                                  "seed": rng2.getrandbits(48), "rec": False, "deep": 0})
            hjf = os.path.join(d, "bytes_hist_jobs.json"); json.dump(batch, open(hjf, "w"))
            hof = os.path.join(d, "bytes_hist_traces.ndjson")
            run([PFV, "run-jobs", hjf, hof, "1"], timeout=3600)
            open(of, "a").write(open(hof).read())
            hist_jobs += batch
        jobs = jobs + hist_jobs
        t_gen = time.time() - t0
        byid = {j["id"]: j for j in jobs}
        lines, weights = [], []
        for l in open(of):
            if not l.strip(): continue
            r = json.loads(l); r.pop("ev", None); r["deep"] = byid[r["id"]].get("deep", 0)
            lines.append(json.dumps(r)); weights.append(len(r["bytes"]) // 6 + 1)
        if len(lines) != len(jobs):
            raise ToolError("harness returned %d results for %d jobs" % (len(lines), len(jobs)))
        shards = shard_lines(lines, CORES - 2, weights)
        files = []
        for i, ixs in enumerate(shards):
            p = os.path.join(d, "bytes_shard%d.ndjson" % i)
            open(p, "w").write("\n".join(lines[j] for j in ixs) + "\n"); files.append(p)
        t0 = time.time()
        res = tlc.run_trace_shards("bytes", "TraceBytes.tla", "TraceBytes.cfg", files, timeout=7200, xmx="4g")
        t_tlc = time.time() - t0
        findings, done, states = [], 0, 0
        for vals, st, wall in res:
            states += st["distinct"]
            for v in vals:
                if v and v[0] == "MSGS":
                    for m in v[1]:
                        findings.append({"kind": m[0], "job": byid[m[1]], "event": m[2], "tag": m[3], "why": m[4] if isinstance(m[4], str) else json.dumps(m[4])})
                elif v and v[0] == "DONE":
                    done += v[1]
        if done != len(jobs):
            raise ToolError("byte-level validation incomplete: %d of %d generations" % (done, len(jobs)))
        for p in files: os.remove(p)
        os.remove(of)
        framed = sum(1 for l in lines[:5000] if '"bytes": [128, 4, 149' in l or '"bytes": [128, 5, 149' in l)
        return {"findings": findings[:3000], "coverage": {"runs": len(jobs), "opcodes_decoded": states - 2 * len(jobs), "tlc_states": states,
                "deep_programs": [j["cfg"]["min"] for j in jobs if j.get("deep")], "framed_pickles_at_least": framed,
                "gen_wall_s": round(t_gen, 1), "tlc_wall_s": round(t_tlc, 1)},
                "samples": [{"cfg": summarize_cfg(jobs[0]["cfg"]), "seed": jobs[0]["seed"], "bytes_hex": bytes(json.loads(lines[0])["bytes"]).hex()[:120]}]}
    return cached(key, "bytes_%s_%d" % (tier_, seed()), compute)

# ---------------------------------------------------------------------------
# model checking of the design (depends on the spec only, not on /repo)

MC_RUNS = {
    # name: (module, cfg, tiers, workers, expect)
    "MC_RunQuick":    ("MC_Run.tla", "MC_RunQuick.cfg", ("quick",), 12),
    "MC_RunThorough": ("MC_Run.tla", "MC_RunThorough.cfg", ("thorough",), 14),
    "MC_RunDeep":     ("MC_Run.tla", "MC_RunDeep.cfg", ("thorough",), 14),
    "MC_Life":        ("MC_Run.tla", "MC_Life.cfg", ("quick", "thorough"), 8),
    "MC_Live":        ("MC_Run.tla", "MC_Live.cfg", ("thorough",), 12),
    "MC_LiveQuick":   ("MC_Run.tla", "MC_LiveQuick.cfg", ("quick",), 12),
    "MC_Step":        ("MC_StepDefs.tla", "MC_Step.cfg", ("quick",), 12),
    "MC_StepDeep":    ("MC_StepDefs.tla", "MC_StepDeep.cfg", ("thorough",), 14),
    "MC_StepMemo":    ("MC_StepDefs.tla", "MC_StepMemo.cfg", ("quick", "thorough"), 12),
    "MC_Mut":         ("MC_Mut.tla", "MC_Mut.cfg", ("quick", "thorough"), 8),
    "MC_Heap":        ("Heap.tla", "MC_Heap.cfg", ("quick", "thorough"), 8),
    "MC_HeapDeep":    ("Heap.tla", "MC_HeapDeep.cfg", ("thorough",), 12),
    "MC_HeapStep":    ("MC_HeapStep.tla", "MC_HeapStep.cfg", ("quick", "thorough"), 10),
}

MODEL_FILES_EXCLUDED = ("Trace", "DiffRef", "Lexer", "Frontend")

def spec_key(extra=""):
    """content hash of the design-level model files (trace-validation specs do not affect model checking)"""
    import hashlib
    h = hashlib.sha256()
    for f in sorted(os.listdir(SPEC)):
        if f.endswith((".tla", ".cfg")) and not f.startswith(MODEL_FILES_EXCLUDED):
            h.update(f.encode()); h.update(open(os.path.join(SPEC, f), "rb").read())
    return "spec-" + h.hexdigest()[:20]

def parse_coverage(out):
    """per-action counts from `-coverage 1` output: {action: (distinct, total)}"""
    import re
    cov = {}
    for m in re.finditer(r"<(\w+) line \d+, col \d+ to line \d+, col \d+ of module (\w+)>: (\d+):(\d+)", out):
        cov[m.group(1)] = (int(m.group(3)), int(m.group(4)))
    return cov

def mc_run(name):
    module, cfg, tiers, workers = MC_RUNS[name]
    def compute(d):
        sd = tlc.stage_dir("mc_" + name)
        rc, out, wall = tlc.run_tlc(sd, module, cfg, workers=workers, xmx="12g", timeout=5400, extra=("-coverage", "1"))
        st = tlc.stats(out)
        ok = "Model checking completed. No error has been found." in out
        viol = [l for l in out.split("\n") if l.startswith("Error: Invariant") or "Temporal properties were violated" in l]
        if st is None or (not ok and not viol):
            raise ToolError("TLC failed on %s:\n%s" % (name, out[-3000:]))
        cov = parse_coverage(out)
        return {"name": name, "ok": ok, "violations": viol, "generated": st["generated"], "distinct": st["distinct"],
                "wall_s": round(wall, 1), "coverage_by_action": {k: v[1] for k, v in cov.items()},
                "tail": out[-1500:] if not ok else ""}
    return cached(spec_key(), "mc_" + name, compute)

def mc_stage(tier_, names):
    res = []
    for n in names:
        if tier_ in MC_RUNS[n][2]:
            r = mc_run(n)
            if not r["ok"]:
                raise ToolError("model checking of the committed specification failed (%s): %s\n%s" % (n, r["violations"], r.get("tail", "")))
            # vacuity guard: every action of the model must have fired
            dead = [a for a, c in r["coverage_by_action"].items() if c == 0 and a not in ("Reset", "Rewrite")]
            if dead:
                raise ToolError("vacuous model checking run %s: actions never taken: %s" % (n, dead))
            res.append(r)
    return res

# ---------------------------------------------------------------------------
# systematic enumeration of the implementation's decision tree (forced-choice hook)

def edge_configs(tier_):
    # six PRNG seeds plus fuzzer-bytes entropy at its extremes (all-0x00, all-0xff, empty input)
    seeds = [sub_seed("edges", i) % (1 << 32) for i in range(6)] + [2 ** 64 - 1, 2 ** 64 - 2, 2 ** 64 - 3]
    def ec(P, depth, ext=False, buf=False, unsafe=False, tag=""):
        return {"cfg": corpus.cfg(P, 0, 0, ext=ext, buf=buf, unsafe=unsafe), "depth": depth, "seeds": seeds,
                "tag": tag or "P%d%s%s d%d" % (P, "+ext" if ext else "", "+buf" if buf else "", depth)}
    many = [sub_seed("edges-many", i) % (1 << 32) for i in range(40 if tier_ == "quick" else 120)] + [2 ** 64 - 1, 2 ** 64 - 2, 2 ** 64 - 3]
    extra = []
    # memo-size boundary scenarios: one value, then 255 / 256 / 257 / 300 memoisations, then every
    # enabled opcode with many seeds (GET keys, index mutators at rate 1, BINPUT limit, LONG_BINPUT)
    B_NONE, B_PUT, B_LONG_BINPUT = 78, 112, 114
    for P in ([1, 5] if tier_ == "quick" else [0, 1, 2, 3, 4, 5]):
        for n in (255, 256, 257, 300):
            for muts, tagm in (([], ""), (["offbyone"], "+offbyone"), (["memoindex"], "+memoindex")):
                c = corpus.cfg(P, 0, 0, muts=muts, rate=1.0)
                put = B_PUT if (P == 0 or n % 2 == 0) else B_LONG_BINPUT
                extra.append({"cfg": c, "depth": 0, "seeds": many, "prefix": [B_NONE] + [put] * n,
                              "tag": "P%d memo=%d%s" % (P, n, tagm)})
    # value grid: every value-pushing opcode from the empty stack under each single mutator at rate 1,
    # many entropy draws, outcomes kept apart by their full bytes
    for P in range(6):
        for m in corpus.MUTS[:5]:
            extra.append({"cfg": corpus.cfg(P, 0, 0, muts=[m], rate=1.0, ext=True, buf=True), "depth": 0, "seeds": many,
                          "full_bytes": True, "tag": "P%d values %s" % (P, m)})
    # byte-value sweep: fuzzer inputs whose 256 bytes are all b, for every b - each byte-valued draw of a
    # text emitter and of the character / string-length mutators takes every value once
    consts = [2 ** 64 - 1 - 2 - 1 - b for b in range(256)]
    TEXT = [0x53, 0x56, 0x8c, 0x58, 0x8d, 0x54, 0x55, 0x43, 0x42, 0x8e, 0x96, 0x46, 0x47, 0x50]
    for P in ([0, 5] if tier_ == "quick" else range(6)):
        for m in ("character", "stringlen", "boundary"):
            extra.append({"cfg": corpus.cfg(P, 0, 0, muts=[m], rate=1.0), "depth": 0, "seeds": consts, "full_bytes": True, "only_ops": TEXT,
                          "tag": "P%d byte sweep %s" % (P, m)})
    # MARK scenarios: nested MARKs with every MARK-consuming opcode, deeper than the general enumeration goes
    MARKOPS = [0x28, 0x4e, 0x8f, 0x5d, 0x7d, 0x29, 0x63, 0x90, 0x65, 0x75, 0x6c, 0x74, 0x64, 0x91, 0x31, 0x30, 0x69, 0x6f, 0x32]
    for P in ((1, 4) if tier_ == "quick" else range(6)):
        extra.append({"cfg": corpus.cfg(P, 0, 0), "depth": 4 if tier_ == "quick" else 5, "seeds": seeds[:2], "only_ops": MARKOPS,
                      "tag": "P%d MARK scenarios d%d" % (P, 4 if tier_ == "quick" else 5)})
    if tier_ == "quick":
        return extra + [ec(5, 3, True, True), ec(5, 2), ec(4, 2, True, False), ec(3, 2), ec(2, 2, True, False), ec(1, 3), ec(0, 3),
                ec(5, 2, unsafe=True, tag="P5 unsafe d2")]
    return extra + [ec(5, 4, True, True), ec(5, 3), ec(4, 3, True, False), ec(4, 3), ec(3, 3, True, False), ec(2, 3, True, False),
            ec(2, 3), ec(1, 4), ec(0, 5), ec(5, 3, unsafe=True, tag="P5 unsafe d3"), ec(1, 3, unsafe=True, tag="P1 unsafe d3")]

def edges_stage(tier_, key):
    def compute(d):
        build_harness()
        cfgs = edge_configs(tier_)
        cf = os.path.join(d, "edge_cfgs.json"); json.dump(cfgs, open(cf, "w"))
        prefix = os.path.join(d, "edges_")
        t0 = time.time()
        p = run([PFV, "edges", cf, prefix], timeout=7200)
        summary = json.loads(p.stdout.strip().split("\n")[-1])
        # value sweep of the GLOBAL argument: every line of the embedded module table, then REDUCE / NEWOBJ;
        # one witness per distinct simulated outcome, and every opcode the implementation enables after it
        gf = os.path.join(d, "globals_spec.json"); json.dump({"protocols": list(range(6)), "step": 1}, open(gf, "w"))
        gof = prefix + "globals.ndjson"
        pg = run([PFV, "globals", gf, gof], timeout=3600)
        gs = json.loads(pg.stdout.strip().split("\n")[-1])
        summary.append({"file": gof, "tag": "GLOBAL value sweep (%d values x %d builders)" % (65536, len(gs)),
                        "states": sum(x["distinct_outcomes"] for x in gs), "edges": sum(1 for l in open(gof) if l.strip())})
        t_gen = time.time() - t0
        files, chunk = [], 4000
        samples = []
        for s in summary:
            lines = [l for l in open(s["file"]).read().split("\n") if l]
            if lines:
                r = json.loads(lines[len(lines) // 2])
                samples.append({"config": s["tag"], "path": [x[0] for x in r["path"]], "forced_opcode": r["op"],
                                "emitted_hex": bytes(r["bytes"]).hex()[:60], "pre": r["pre"], "post": r["post"]})
            for i in range(0, len(lines), chunk):
                fp = "%s.part%d" % (s["file"], i // chunk)
                open(fp, "w").write("\n".join(lines[i:i + chunk]) + "\n"); files.append((fp, s["tag"], i))
            os.remove(s["file"])
        t0 = time.time()
        res = tlc.run_trace_shards("edges", "TraceEdges.tla", "TraceEdges.cfg", [f[0] for f in files], timeout=7200)
        t_tlc = time.time() - t0
        findings, done, states = [], 0, 0
        for (fp, tag, base), (vals, st, wall) in zip(files, res):
            states += st["distinct"]
            lines = None
            for v in vals:
                if v and v[0] == "MSGS":
                    for m in v[1]:
                        if lines is None:
                            lines = open(fp).read().split("\n")
                        edge = json.loads(lines[m[1] - 1])
                        findings.append({"kind": m[0], "tag": m[2], "why": m[3] if isinstance(m[3], str) else json.dumps(m[3]),
                                         "config": tag, "edge": {k: edge[k] for k in ("cfg", "path", "op", "seed", "bytes", "pre", "post", "muts", "rate") if k in edge}})
                elif v and v[0] == "DONE":
                    done += v[1]
        total = sum(s["edges"] for s in summary)
        if done != total:
            raise ToolError("edge validation incomplete: TLC consumed %d of %d edges" % (done, total))
        for fp, _, _ in files:
            os.remove(fp)
        return {"findings": findings[:2000], "n_findings": len(findings),
                "coverage": {"configs": [{"config": s["tag"], "states_expanded": s["states"], "edges": s["edges"]} for s in summary],
                             "edges": total, "states_expanded": sum(s["states"] for s in summary), "tlc_states": states,
                             "gen_wall_s": round(t_gen, 1), "tlc_wall_s": round(t_tlc, 1), "exhaustive_to_depth": True},
                "samples": samples[:4]}
    return cached(key, "edges_%s_%d" % (tier_, seed()), compute)

# ---------------------------------------------------------------------------
# C12 at design level: shortest reachability witnesses from the model, replayed into the code

REACH_RUNS = {"MC_Reach0": ("quick", "thorough"), "MC_Reach5q": ("quick",), "MC_Reach15": ("thorough",)}

def reach_run(name):
    def compute(d):
        sd = tlc.stage_dir("mc_" + name)
        rc, out, wall = tlc.run_tlc(sd, "MC_Reach.tla", name + ".cfg", workers=1, xmx="8g", timeout=5400)
        st = tlc.stats(out)
        if st is None or "Model checking completed. No error has been found." not in out:
            raise ToolError("TLC failed on %s:\n%s" % (name, out[-3000:]))
        wit = [v for v in tlaval.printed_values(out) if v and v[0] == "WITNESS"]
        return {"name": name, "generated": st["generated"], "distinct": st["distinct"], "wall_s": round(wall, 1),
                "witnesses": [{"P": w[1], "op": w[2], "path": w[3]} for w in wit if w[4] == "body"]}
    return cached(spec_key(), "mc_" + name, compute)

def reach_stage(tier_, key):
    runs = [reach_run(n) for n, tiers in REACH_RUNS.items() if tier_ in tiers]
    def compute(d):
        build_harness()
        jobs = []
        for r in runs:
            for w in r["witnesses"]:
                # a witness found for protocol p is also a path for every protocol whose table has all its opcodes
                for P in range(6):
                    jobs.append({"id": len(jobs) + 1, "cfg": corpus.cfg(P, 0, 0, ext=True, buf=True), "path": w["path"], "model_P": w["P"], "op": w["op"]})
        jf = os.path.join(d, "reach_jobs.json"); json.dump(jobs, open(jf, "w"))
        of = os.path.join(d, "reach_replay.ndjson")
        run([PFV, "replay-paths", jf, of], timeout=1800)
        res = {json.loads(l)["id"]: json.loads(l) for l in open(of) if l.strip()}
        ok, failed = {}, []
        for j in jobs:
            r = res[j["id"]]
            P = j["cfg"]["P"]
            if r["failed_at"] == 0:
                # the opcode actually written by the last step (the integer family picks its variant itself)
                ok.setdefault(P, {})[r["emitted"][-1] if r["emitted"] else j["op"]] = j["path"]
            elif P == j["model_P"]:
                failed.append({"P": P, "op": j["op"], "path": j["path"], "failed_at": r["failed_at"]})
        return {"replayed": len(jobs), "ok_pairs": {str(P): sorted(v) for P, v in ok.items()}, "failed_same_protocol": failed,
                "samples": [{"P": P, "op": op, "path": path} for P, v in ok.items() for op, path in list(v.items())[:2]][:6]}
    r = cached(key, "reach_%s" % tier_, compute)
    r["model_runs"] = [{"config": x["name"], "distinct_states": x["distinct"], "states_generated": x["generated"], "wall_s": x["wall_s"],
                        "witnesses": len(x["witnesses"])} for x in runs]
    return r

# ---------------------------------------------------------------------------
# exhaustive guard conformance: the model's guard table vs the implementation's enabled sets

def guard_table_specs(tier_):
    q = tier_ == "quick"
    T = []
    def t(P, ext, buf, unsafe, depth, keys=False):
        T.append({"P": P, "ext": ext, "buf": buf, "unsafe": unsafe, "depth": depth, "keys": keys})
    t(0, False, False, False, 4 if q else 5); t(1, False, False, False, 5)
    t(2, True, False, False, 4 if q else 5); t(3, True, False, False, 4 if q else 5)
    t(4, True, False, False, 4 if q else 5); t(5, True, True, False, 5 if q else 6)
    t(5, False, False, False, 4); t(5, True, True, True, 4); t(1, False, False, True, 4)
    t(5, True, True, False, 3, True); t(1, False, False, False, 3, True); t(0, False, False, False, 3, True)
    return T

def guard_table(t):
    """rows of GuardTable.tla for one configuration (depends on the model only)"""
    name = "gt_P%d_%d%d%d_d%d_%s" % (t["P"], t["ext"], t["buf"], t["unsafe"], t["depth"], "k" if t["keys"] else "e")
    d = cache_dir(spec_key())
    path = os.path.join(d, name + ".rows")
    if os.path.exists(path) and os.path.getsize(path) > 0 and os.environ.get("VERIF_NOCACHE") != "1":
        return path
    sd = tlc.stage_dir("gt_" + name)
    B = lambda b: "TRUE" if b else "FALSE"
    open(os.path.join(sd, "gt.cfg"), "w").write("SPECIFICATION Spec\nCONSTANTS\n  OneByte = 256\n  Pinned = FALSE\n  TP = %d\n  TExt = %s\n  TBuf = %s\n  TUnsafe = %s\n  TDepth = %d\n  TKeys = %s\nINVARIANT Row\nCHECK_DEADLOCK FALSE\n"
        % (t["P"], B(t["ext"]), B(t["buf"]), B(t["unsafe"]), t["depth"], "{0}" if t["keys"] else "{}"))
    rc, out, wall = tlc.run_tlc(sd, "GuardTable.tla", "gt.cfg", workers=2, xmx="8g", timeout=5400, meta="meta_" + name)
    if "Model checking completed. No error has been found." not in out:
        raise ToolError("GuardTable failed for %s:\n%s" % (name, out[-2000:]))
    rows = [l for l in out.split("\n") if l.startswith('<<"ROW"')]
    tmp = path + ".tmp%d" % os.getpid()
    open(tmp, "w").write("\n".join(rows) + "\n"); os.replace(tmp, path)
    return path

def guard_tables(tier_):
    from concurrent.futures import ThreadPoolExecutor
    specs = guard_table_specs(tier_)
    with ThreadPoolExecutor(max_workers=6) as ex:
        paths = list(ex.map(guard_table, specs))
    return list(zip(specs, paths))

def guards_stage(tier_, key):
    tabs = guard_tables(tier_)
    def compute(d):
        build_harness()
        seeds = [sub_seed("guards", i) % (1 << 32) for i in range(4)] + [2 ** 64 - 1, 2 ** 64 - 2]
        specs = []
        main_seen = set()
        for t, path in tabs:
            tag = "P%d%s%s%s depth<=%d%s" % (t["P"], "+ext" if t["ext"] else "", "+buf" if t["buf"] else "", " unsafe" if t["unsafe"] else "", t["depth"], " memo{0}" if t["keys"] else "")
            sp = {"cfg": corpus.cfg(t["P"], 0, 0, ext=t["ext"], buf=t["buf"], unsafe=t["unsafe"]), "table": path, "memo_one": t["keys"], "seeds": seeds, "tag": tag}
            # one-step conformance on the implementation side: from every abstract stack up to depth 2 (3 in the
            # thorough tier), built with empty and with non-empty containers, EVERY enabled opcode is forced
            # and the edge validated against the reference machine by TraceEdges
            main = not t["unsafe"] and not t["keys"] and t["P"] not in main_seen
            if main:
                main_seen.add(t["P"])
                sp["all_edges_depth"] = 2 if tier_ == "quick" else 3
                specs.append(dict(sp, variant=1, tag=tag + " non-empty containers"))
            specs.append(sp)
        sf = os.path.join(d, "guard_specs.json"); json.dump(specs, open(sf, "w"))
        prefix = os.path.join(d, "guards_")
        p = run([PFV, "guards", sf, prefix], timeout=7200)
        summary = json.loads(p.stdout.strip().split("\n")[-1])
        findings, files, drift = [], [], []
        for s in summary:
            for m in s["mismatches"]:
                drift.append({"config": s["tag"], "state": m["stk"], "impl_only": m["impl_only"], "model_only": m["model_only"]})
            if s["edges"] > 0: files.append((s["file"], s["tag"]))
            else: os.remove(s["file"])
        states = 0
        if files:
            res = tlc.run_trace_shards("guards", "TraceEdges.tla", "TraceEdges.cfg", [f[0] for f in files], timeout=3600)
            for (fp, tag), (vals, st, wall) in zip(files, res):
                states += st["distinct"]
                lines = open(fp).read().split("\n")
                for v in vals:
                    if v and v[0] == "MSGS":
                        for m in v[1]:
                            edge = json.loads(lines[m[1] - 1])
                            findings.append({"kind": m[0], "tag": m[2], "why": m[3] if isinstance(m[3], str) else json.dumps(m[3]), "config": tag,
                                             "edge": {k: edge[k] for k in ("cfg", "path", "op", "seed", "bytes", "pre", "post", "muts", "rate") if k in edge}})
                os.remove(fp)
        return {"findings": findings[:1000], "drift": drift[:200],
                "coverage": {"configs": [{"config": s["tag"], "abstract_states": s["rows"], "constructed_and_compared": s["compared"],
                                          "not_constructible_in_this_protocol": s["unconstructible"], "enabled_set_mismatches": s["mismatched"]} for s in summary],
                             "abstract_states_compared": sum(s["compared"] for s in summary), "mismatches": sum(s["mismatched"] for s in summary),
                             "forced_edges_validated": sum(s["edges"] for s in summary), "tlc_states": states, "exhaustive": True},
                "samples": [{"config": summary[0]["tag"], "note": "every abstract stack of the configuration is built in the real generator by a canonical recipe and its enabled set compared with the model row"}]}
    return cached(key, "guards_%s_%d" % (tier_, seed()), compute)
