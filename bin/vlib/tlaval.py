"""parser for TLA+ values as TLC prints them (tuples, sets, records, strings, ints, booleans)"""
import re

_tok = re.compile(r'\s*(<<|>>|\|->|:>|@@|\{|\}|\[|\]|\(|\)|,|"(?:[^"\\]|\\.)*"|-?\d+|[A-Za-z_][A-Za-z0-9_]*)')

def tokenize(s):
    pos, out = 0, []
    while True:
        m = _tok.match(s, pos)
        if not m:
            if s[pos:].strip():
                raise ValueError("cannot tokenize at %r" % s[pos:pos + 40])
            return out
        out.append(m.group(1)); pos = m.end()

def parse(s):
    toks = tokenize(s)
    v, i = _val(toks, 0)
    if i != len(toks):
        raise ValueError("trailing tokens")
    return v

def _val(t, i):
    x = t[i]
    if x == "<<":
        i += 1; out = []
        while t[i] != ">>":
            v, i = _val(t, i); out.append(v)
            if t[i] == ",": i += 1
        return out, i + 1
    if x == "{":
        i += 1; out = []
        while t[i] != "}":
            v, i = _val(t, i); out.append(v)
            if t[i] == ",": i += 1
        return {"__set__": out}, i + 1
    if x == "[":
        i += 1; out = {}
        while t[i] != "]":
            k = t[i]; assert t[i + 1] == "|->", t[i:i + 3]
            v, i = _val(t, i + 2); out[k] = v
            if t[i] == ",": i += 1
        return out, i + 1
    if x == "(":
        i += 1; out = {}
        while t[i] != ")":
            k, i = _val(t, i); assert t[i] == ":>"
            v, i = _val(t, i + 1); out[str(k)] = v
            if t[i] == "@@": i += 1
        return {"__fn__": out}, i + 1
    if x.startswith('"'):
        return bytes(x[1:-1], "utf-8").decode("unicode_escape"), i + 1
    if x == "TRUE": return True, i + 1
    if x == "FALSE": return False, i + 1
    if re.fullmatch(r"-?\d+", x): return int(x), i + 1
    return x, i + 1

def printed_values(text):
    """yield every top-level <<...>> value printed by PrintT in TLC's output"""
    lines = text.split("\n")
    i = 0
    while i < len(lines):
        ln = lines[i]
        if ln.startswith("<<"):
            buf = ln; depth = ln.count("<<") - ln.count(">>")
            while depth > 0 and i + 1 < len(lines):
                i += 1; buf += "\n" + lines[i]
                depth += lines[i].count("<<") - lines[i].count(">>")
            try:
                yield parse(buf)
            except Exception:
                pass
        i += 1
