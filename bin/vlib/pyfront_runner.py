"""executed with python3-vt and PYTHONPATH=<built module>: runs Python front-end call sequences"""
import json, sys
cases = json.load(open(sys.argv[1]))
out = []
for c in cases:
    try:
        if c["via"] == "generator":
            from pickle_fuzzer import Generator
            g = None
            res = None
            for call in c["calls"]:
                if call[0] == "new":
                    g = Generator(protocol=call[1], seed=None if call[2] < 0 else call[2])
                elif call[0] == "range":
                    g.set_opcode_range(call[1], call[2])
                elif call[0] == "reset":
                    g.reset()
                elif call[0] == "gen":
                    res = g.generate_from_bytes(bytes(c["data"])) if c["data"] is not None else g.generate()
            out.append({"id": c["id"], "ok": 1, "got": list(res)})
        else:
            from pickle_fuzzer.fuzzer import PickleMutator
            m = None
            res = None
            for call in c["calls"]:
                if call[0] == "new":
                    m = PickleMutator(protocol=call[1], seed=None if call[2] < 0 else call[2])
                elif call[0] == "range":
                    m.generator.set_opcode_range(call[1], call[2])
                elif call[0] == "reset":
                    m.reset()
                elif call[0] == "gen":
                    res = m.mutate(bytes(c["data"]), c["maxsize"])
            out.append({"id": c["id"], "ok": 1, "got": list(res)})
    except Exception as e:
        out.append({"id": c["id"], "ok": 0, "got": [], "err": repr(e)})
json.dump(out, open(sys.argv[2], "w"))
