"""shared helpers for the check driver"""
import hashlib, json, os, subprocess, sys, time

VERIF = os.path.dirname(os.path.dirname(os.path.dirname(os.path.abspath(__file__))))
REPO = os.environ.get("VERIF_REPO", "/repo")
WORK = os.path.join(VERIF, "work")
SPEC = os.path.join(VERIF, "spec")
HARNESS = os.path.join(VERIF, "harness")
PFV = os.path.join(HARNESS, "target", "release", "pfv")
EVIDENCE = os.environ.get("VERIF_EVIDENCE_DIR") or os.path.join(VERIF, "evidence")
CORES = max(2, min(16, os.cpu_count() or 4))

class ToolError(Exception):
    pass

def log(*a):
    print(*a, file=sys.stderr, flush=True)

def tier():
    return os.environ.get("VERIF_TIER", "quick")

def seed():
    try:
        return int(os.environ.get("VERIF_SEED", "0"))
    except ValueError:
        return 0

def sub_seed(*labels):
    h = hashlib.sha256(("%d|" % seed() + "|".join(str(l) for l in labels)).encode()).digest()
    return int.from_bytes(h[:6], "big")

def _hash_tree(h, root, rels):
    for rel in rels:
        p = os.path.join(root, rel)
        if os.path.isfile(p):
            h.update(rel.encode()); h.update(open(p, "rb").read())
        elif os.path.isdir(p):
            for d, dirs, files in sorted(os.walk(p)):
                dirs[:] = sorted(x for x in dirs if x not in ("target", "__pycache__", ".git", "node_modules"))
                for f in sorted(files):
                    if f.endswith((".pyc",)):
                        continue
                    fp = os.path.join(d, f)
                    h.update(os.path.relpath(fp, root).encode())
                    h.update(open(fp, "rb").read())

def tree_key(extra=None):
    """content hash of everything a cached stage result depends on"""
    h = hashlib.sha256()
    _hash_tree(h, REPO, ["src", "Cargo.toml", "Cargo.lock", "build.rs", "data", "python", "scripts", "pyproject.toml"])
    _hash_tree(h, VERIF, ["spec", "harness/src", "harness/Cargo.toml", "harness/.cargo", "bin", "known_findings.json"])
    return "tree-" + h.hexdigest()[:24]

def run(cmd, cwd=None, env=None, timeout=None, check=True, capture=True):
    e = dict(os.environ)
    e.setdefault("PFV_JOB_TIMEOUT_S", "90" if tier() == "quick" else "900")
    e.setdefault("PFV_WATCHDOG_S", "120" if tier() == "quick" else "1200")
    if env:
        e.update(env)
    t0 = time.time()
    p = subprocess.run(cmd, cwd=cwd, env=e, timeout=timeout,
                       stdout=subprocess.PIPE if capture else None,
                       stderr=subprocess.STDOUT if capture else None, text=True)
    if p.returncode == 4 and '"hang"' in (p.stdout or ""):
        raise ToolError("harness call into the code under test did not return (watchdog): %s" % (p.stdout or "").strip().split("\n")[-1][:1500])
    if check and p.returncode != 0:
        raise ToolError("command failed (%d): %s\n%s" % (p.returncode, " ".join(cmd), (p.stdout or "")[-4000:]))
    return p

_built = False
def build_harness():
    """(re)build the harness against /repo's current working tree with hooks on"""
    global _built
    if _built:
        return
    env = {"CARGO_NET_OFFLINE": "true"}
    if REPO != "/repo":
        # background sweeps run against a snapshot of the repository: point the path dependency there
        ct = os.path.join(HARNESS, "Cargo.toml")
        t = open(ct).read()
        if 'path = "/repo"' in t:
            open(ct, "w").write(t.replace('path = "/repo"', 'path = "%s"' % REPO))
    p = run(["cargo", "build", "--release", "--offline"], cwd=HARNESS, env=env, timeout=1800)
    if not os.path.exists(PFV):
        raise ToolError("harness binary missing after build")
    _built = True

def cache_dir(key):
    d = os.path.join(WORK, "cache", key)
    os.makedirs(d, exist_ok=True)
    return d

def cached(key, name, fn):
    """run fn() once per content key; result must be JSON-serialisable"""
    d = cache_dir(key)
    p = os.path.join(d, name + ".json")
    if os.path.exists(p) and os.environ.get("VERIF_NOCACHE") != "1":
        try:
            r = json.load(open(p))
            r["_cache_hit"] = True
            return r
        except Exception:
            pass
    t0 = time.time()
    r = fn(d)
    r["_wall_s"] = round(time.time() - t0, 2)
    tmp = p + ".tmp%d" % os.getpid()
    json.dump(r, open(tmp, "w"))
    os.replace(tmp, p)
    r["_cache_hit"] = False
    return r

def prune_cache(keep=4):
    """bound disk use: keep the most recent `keep` tree-keyed and spec-keyed cache directories"""
    root = os.path.join(WORK, "cache")
    if not os.path.isdir(root):
        return
    import shutil
    for prefix in ("tree-", "spec-"):
        ds = sorted((os.path.getmtime(os.path.join(root, d)), d) for d in os.listdir(root) if d.startswith(prefix))
        for _, d in ds[:-keep]:
            shutil.rmtree(os.path.join(root, d), ignore_errors=True)
