"""running TLC"""
import os, re, shutil, subprocess, time, json
from concurrent.futures import ThreadPoolExecutor
from .util import SPEC, WORK, ToolError, log, CORES
from . import tlaval

JAR_CP = "/opt/veriftools/tla/tla2tools.jar:/opt/veriftools/tla/CommunityModules-deps.jar"

def tlc_cmd(module, cfg, workers=1, xmx="2g", extra=(), deque=False, xss="1g"):
    props = ["-XX:+UseParallelGC", "-Xss" + xss, "-Xmx" + xmx]
    if deque:
        props.append("-Dtlc2.tool.queue.IStateQueue=StateDeque")
    return ["java"] + props + ["-cp", JAR_CP, "tlc2.TLC", "-workers", str(workers),
            "-noGenerateSpecTE", "-config", cfg] + list(extra) + [module]

def stage_dir(name):
    d = os.path.join(WORK, "tlc", name)
    shutil.rmtree(d, ignore_errors=True)
    os.makedirs(d)
    for f in os.listdir(SPEC):
        if f.endswith((".tla", ".cfg")):
            shutil.copy(os.path.join(SPEC, f), d)
    return d

def run_tlc(d, module, cfg, env=None, workers=1, xmx="2g", timeout=3600, extra=(), deque=False, meta="meta"):
    cmd = tlc_cmd(module, cfg, workers, xmx, tuple(extra) + ("-metadir", os.path.join(d, meta), "-cleanup"), deque)
    e = dict(os.environ); e.pop("JAVA_TOOL_OPTIONS", None)
    if env: e.update(env)
    t0 = time.time()
    try:
        p = subprocess.run(cmd, cwd=d, env=e, stdout=subprocess.PIPE, stderr=subprocess.STDOUT, text=True, timeout=timeout)
    except subprocess.TimeoutExpired as ex:
        raise ToolError("TLC timed out after %ss: %s %s" % (timeout, module, cfg))
    out = p.stdout
    shutil.rmtree(os.path.join(d, meta), ignore_errors=True)
    return p.returncode, out, time.time() - t0

def stats(out):
    m = re.search(r"(\d+) states generated, (\d+) distinct states found", out)
    if not m:
        return None
    return {"generated": int(m.group(1)), "distinct": int(m.group(2))}

def check_errors(out, what):
    """TLC evaluation/parse errors are tool errors, never verdicts"""
    if "Error:" in out and "Invariant" not in out.split("Error:")[1][:200]:
        raise ToolError("TLC error in %s:\n%s" % (what, out[out.index("Error:"):][:3000]))

def run_trace_shards(name, module, cfg, shard_files, env_key="TRACE", extra_env=None, timeout=3600, xmx="3g"):
    """one single-worker TLC per shard file, in parallel; returns list of (printed values, stats, wall)"""
    d = stage_dir(name)
    def one(ix_path):
        ix, path = ix_path
        env = {env_key: path}
        if extra_env: env.update(extra_env)
        rc, out, wall = run_tlc(d, module, cfg, env=env, workers=1, xmx=xmx, timeout=timeout, meta="meta%d" % ix)
        st = stats(out)
        if st is None or "Model checking completed" not in out:
            raise ToolError("TLC did not complete on %s:\n%s" % (path, out[-3000:]))
        vals = list(tlaval.printed_values(out))
        return vals, st, wall
    with ThreadPoolExecutor(max_workers=max(1, CORES - 2)) as ex:
        return list(ex.map(one, list(enumerate(shard_files))))
