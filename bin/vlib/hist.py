"""history stages: API-level histories of the real code validated by TraceHistory.tla"""
import json, os, random, shutil, subprocess, time, hashlib
from .util import *
from . import corpus, tlc

def validate_history(name, path, timeout=3600, module="TraceHistory"):
    """run TraceHistory (or another history trace spec) on one ndjson file; returns (findings, tlc_states)"""
    res = tlc.run_trace_shards(name, module + ".tla", module + ".cfg", [path], timeout=timeout, xmx="4g")
    n = sum(1 for l in open(path) if l.strip())
    findings, done, states = [], 0, 0
    for vals, st, wall in res:
        states += st["distinct"]
        for v in vals:
            if v and v[0] == "MSGS":
                findings.extend(v[1])
            elif v and v[0] == "DONE":
                done += v[1]
    if done != n:
        raise ToolError("history validation incomplete (%s): TLC consumed %d of %d records" % (name, done, n))
    return findings, states

def flat(x):
    return x if isinstance(x, str) else json.dumps(x)

def split_findings(findings, lines):
    out = []
    for m in findings:
        out.append({"kind": m[0], "line": m[1], "tag": m[2], "why": flat(m[3]), "record": lines[m[1] - 1] if 0 < m[1] <= len(lines) else None})
    return out

# ---------------------------------------------------------------- C08
def reuse_stage(tier_, key):
    def compute(d):
        build_harness()
        rng = random.Random(sub_seed("reuse", tier_))
        cfgs = []
        for P in range(6):
            cfgs.append(corpus.cfg(P, 5, 30))
            cfgs.append(corpus.cfg(P, 0, 0))
            cfgs.append(corpus.cfg(P, 20, 60, muts=corpus.MUTS, rate=0.5, ext=True, buf=True))
            # the buffer-size option (small enough that outputs exceed it) and a doubly registered mutator
            cfgs.append(corpus.cfg(P, 100, 400, bufsize=[256, 1024, 2048][P % 3]))
            cfgs.append(corpus.cfg(P, 20, 60, muts=corpus.DUP_LISTS[P % 4], rate=0.7, unsafe=(P % 2 == 1)))
            if P in (1, 4) or tier_ == "thorough":
                cfgs.append(corpus.cfg(P, 1000, 2000))      # outputs of tens of KiB: buffers that grew in an earlier call
            if tier_ == "thorough":
                cfgs.append(corpus.cfg(P))
                cfgs.append(corpus.cfg(P, 10, 40, muts=corpus.MUTS, rate=1.0, unsafe=True))
        maxlens = [4 if tier_ == "quick" else 5] * len(cfgs)
        # mutators are objects owned by the generator: anything they remember between calls shows up here
        for P in ((1, 4) if tier_ == "quick" else range(6)):
            for ms in [[m] for m in corpus.MUTS[:6]] + [["memoindex", "offbyone"], ["character", "stringlen"]]:
                cfgs.append(corpus.cfg(P, 40, 120, muts=ms, rate=1.0)); maxlens.append(3)
                cfgs.append(corpus.cfg(P, 40, 120, muts=ms, rate=0.6)); maxlens.append(3)
        # an earlier call whose memo went beyond 256 entries (3 500+ opcodes), then ordinary calls
        for P in ((1, 4) if tier_ == "quick" else range(1, 6)):
            cfgs.append(corpus.cfg(P, 3500, 4500)); maxlens.append(2)
        # one long session per protocol (thousands of calls on one generator, small programs)
        long_calls = [0] * len(cfgs)
        for P in range(6):
            cfgs.append(corpus.cfg(P, 3, 12)); maxlens.append(1); long_calls.append(2600 if tier_ == "quick" else 70000)
        spec = {"cfgs": cfgs, "maxlens": maxlens, "long_calls": long_calls, "seed": rng.getrandbits(40), "x": [rng.randrange(256) for _ in range(rng.randrange(1, 200))],
                "y": [rng.randrange(256) for _ in range(rng.randrange(200, 900))], "maxlen": 4 if tier_ == "quick" else 5}
        spec["x"][0] |= 1; spec["y"][0] &= 0xFE        # first draw (frame coin for protocols 4/5) differs between x and y
        sf = os.path.join(d, "reuse_spec.json"); json.dump(spec, open(sf, "w"))
        of = os.path.join(d, "reuse.ndjson")
        run([PFV, "reuse", sf, of], timeout=3600)
        lines = [json.loads(l) for l in open(of) if l.strip()]
        findings, states = validate_history("reuse", of)
        nseq = sum(1 for l in lines if l["t"] == "seq")
        return {"findings": split_findings(findings, lines), "spec": {k: spec[k] for k in ("seed", "maxlen")},
                "coverage": {"configurations": len(cfgs), "call_sequences": nseq, "calls": sum(len(l.get("seq", l.get("got", []))) for l in lines),
                             "max_sequence_length": max(maxlens), "tlc_states": states, "exhaustive": True,
                             "alphabet": "generate(), generate_from_arbitrary(x), generate_from_arbitrary(y), reset()"},
                "samples": [l for l in lines if l["t"] == "seq" and len(l["seq"]) >= 3][:2]}
    return cached(key, "reuse_%s_%d" % (tier_, seed()), compute)

# ---------------------------------------------------------------- CLI / python builds (C07d, C13)
def build_cli():
    td = os.path.join(WORK, "target-cli")
    run(["cargo", "build", "--release", "--offline", "--bin", "pickle-fuzzer", "--target-dir", td], cwd=REPO,
        env={"CARGO_NET_OFFLINE": "true"}, timeout=3600)
    exe = os.path.join(td, "release", "pickle-fuzzer")
    if not os.path.exists(exe):
        raise ToolError("pickle-fuzzer binary missing after build")
    return exe

def build_py():
    td = os.path.join(WORK, "target-py")
    run(["cargo", "build", "--release", "--offline", "--lib", "--features", "python-bindings", "--target-dir", td], cwd=REPO,
        env={"CARGO_NET_OFFLINE": "true"}, timeout=3600)
    so = os.path.join(td, "release", "libpickle_fuzzer.so")
    if not os.path.exists(so):
        raise ToolError("python extension missing after build")
    pk = os.path.join(WORK, "pymod", "pickle_fuzzer")
    shutil.rmtree(os.path.dirname(pk), ignore_errors=True)
    shutil.copytree(os.path.join(REPO, "python", "pickle_fuzzer"), pk)
    shutil.copy(so, os.path.join(pk, "_native.so"))
    return os.path.dirname(pk)

def fnv64(b):
    h = 0xcbf29ce484222325
    for x in b:
        h ^= x; h = (h * 0x100000001b3) & 0xFFFFFFFFFFFFFFFF
    return "%016x" % h

# ---------------------------------------------------------------- C07
def determinism_stage(tier_, key):
    def compute(d):
        build_harness()
        q = tier_ == "quick"
        J = corpus.Jobs("det-" + tier_)
        groups = []
        for P in range(6):
            for _ in range(4 if q else 12):
                J.seed_job(corpus.cfg(P, 200, 400))
                J.bytes_job(corpus.cfg(P, 200, 400), blen=4000)
            J.seed_job(corpus.cfg(P, 150, 300, muts=corpus.MUTS, rate=0.5, ext=True, buf=True))
            J.bytes_job(corpus.cfg(P, 150, 300, muts=corpus.MUTS, rate=0.5, unsafe=True), blen=4000)
            J.seed_job(corpus.cfg(P))
            # fuzzer input that runs out in the middle of the generation (fallback draws, partially filled
            # payloads): whatever the fallback path reads must not depend on what the thread did before
            for k in range(30 if q else 200):
                J.bytes_job(corpus.cfg(P, 20, 80), blen=J.rng.choice([0, 1, 2, 3, 5, 8, 13, 21, 34, 55, 89, 144, 200]))
            for kind in ("empty", "zero", "ff"):
                J.bytes_job(corpus.cfg(P, 20, 80, muts=corpus.MUTS, rate=0.5), kind=kind, blen=16)
            # extreme byte patterns (all-ones floats are NaN, 7f f0.. / ff f0.. are the infinities) at every alignment
            for kind, blen in (("ff", 64), ("ff", 300), ("ff", 3000), ("zero", 300), ("ramp", 600)):
                J.bytes_job(corpus.cfg(P, 20, 80), kind=kind, blen=blen)
                J.bytes_job(corpus.cfg(P, 20, 80, muts=corpus.MUTS, rate=1.0, unsafe=True), kind=kind, blen=blen)
            for k in range(8 if q else 40):
                pat = [[0x7f, 0xf0, 0, 0, 0, 0, 0, 0], [0xff, 0xf0, 0, 0, 0, 0, 0, 0], [0x7f, 0xf8, 0, 0, 0, 0, 0, 1], [0, 0, 0, 0, 0, 0, 0xf0, 0x7f]][k % 4]
                data = [J.rng.randrange(256) for _ in range(J.rng.randrange(0, 24))] + pat * 40
                J.bytes_job(corpus.cfg(P, 20, 80), data=data)
            # hash-based containers with several keys of different kinds, then free choices: anything that looks at
            # "the first key" or iterates such a container while deciding what to emit depends on the hasher
            if P >= 1:
                S, I, F, T = (0x58 if P >= 1 else 0x56), 0x4b, 0x47, 0x29
                dict4 = [0x63, 0x29, 0x7d, S, 0x4e, 0x73, I, 0x4e, 0x73, T, 0x4e, 0x73, F, 0x4e, 0x73]
                shapes = [dict4, [0x7d, I, S, 0x73, S, I, 0x73, T, T, 0x73] + [0x32]]
                if P >= 4:
                    shapes.append([0x8f, 0x28, S, I, T, F, 0x4e, 0x90])
                    shapes.append([0x63, 0x29, 0x28, S, I, T, F, 0x91, 0x32])
                for sh in shapes:
                    for _ in range(6 if q else 40):
                        J.seed_job(corpus.cfg(P, len(sh) + 40, len(sh) + 60), force=[[i, b] for i, b in enumerate(sh)])
            # a mutator registered more than once; the buffer-size option
            for ms in corpus.DUP_LISTS:
                J.seed_job(corpus.cfg(P, 60, 160, muts=ms, rate=0.5))
                J.seed_job(corpus.cfg(P, 60, 160, muts=ms, rate=1.0, unsafe=True))
            J.seed_job(corpus.cfg(P, 100, 300, bufsize=512)); J.bytes_job(corpus.cfg(P, 100, 300, bufsize=64), blen=3000)
            # configurations that differ in ONE setting, generated in different orders by the threads /
            # processes: anything cached across generator instances under too coarse a key shows up
            grp = []
            for ext in (False, True):
                for buf in (False, True):
                    grp.append(J.seed_job(corpus.cfg(P, 80, 160, ext=ext, buf=buf))["id"])
            grp.append(J.seed_job(corpus.cfg(P, 80, 160, muts=["boundary"], rate=0.5))["id"])
            grp.append(J.seed_job(corpus.cfg(P, 80, 160, muts=["boundary"], rate=0.5, unsafe=True))["id"])
            grp.append(J.seed_job(corpus.cfg(P, 81, 160))["id"])
            grp.append(J.bytes_job(corpus.cfg(P, 80, 160, ext=True), blen=2000)["id"])
            groups.append(grp)
            if P >= 1:
                # long programs: the memo grows beyond 256 entries (order-dependent choices among many keys)
                J.seed_job(corpus.cfg(P, 4500, 6000))
                if not q: J.bytes_job(corpus.cfg(P, 4500, 6000), blen=60000)
        # a working directory with altered copies of the data files the repository ships
        decoy = os.path.join(d, "decoy_cwd"); shutil.rmtree(decoy, ignore_errors=True)
        for root, dirs, files in os.walk(os.path.join(REPO, "data")):
            rel = os.path.relpath(root, REPO); os.makedirs(os.path.join(decoy, rel), exist_ok=True)
            for fn in files:
                try:
                    lines = open(os.path.join(root, fn), errors="replace").read().split("\n")
                    open(os.path.join(decoy, rel, fn), "w").write("\n".join(lines[3:9] if len(lines) > 9 else lines[:1]) + "\n")
                except Exception: pass
        spec = {"jobs": J.jobs, "threads": 16, "procs": 3 if q else 6, "groups": groups, "decoy_cwd": decoy}
        sf = os.path.join(d, "det_spec.json"); json.dump(spec, open(sf, "w"))
        of = os.path.join(d, "det.ndjson")
        run([PFV, "determinism", sf, of], timeout=3600)
        recs = [json.loads(l) for l in open(of) if l.strip()]
        for r in recs: r["t"] = "det"
        # CLI batch mode under different rayon worker counts
        exe = build_cli()
        cli_cases = []
        nid = 100000
        for P in range(6):
            for s in range(2 if q else 5):
                nid += 1
                cli_cases.append({"id": nid, "P": P, "seed": sub_seed("detcli", P, s) % 100000, "n": 5 if q else 9, "extra": []})
            # more samples than workers (one worker serves several samples), with mutators
            nid += 1
            cli_cases.append({"id": nid, "P": P, "seed": sub_seed("detcli-m", P) % 100000, "n": 24 if q else 96,
                              "extra": ["--mutators", "bitflip", "offbyone", "character", "--mutation-rate", "0.5"]})
        for c in cli_cases:
            for threads in (1, 2, 16):
                od = os.path.join(d, "clidet_%d_%d" % (c["id"], threads))
                shutil.rmtree(od, ignore_errors=True)
                p = run([exe, "--dir", od, "--samples", str(c["n"]), "--seed", str(c["seed"]), "--protocol", str(c["P"]),
                         "--min-opcodes", "40" if c["extra"] else "150", "--max-opcodes", "90" if c["extra"] else "300"] + c["extra"],
                        env={"RAYON_NUM_THREADS": str(threads)}, check=False, timeout=600)
                for i in range(c["n"]):
                    fp = os.path.join(od, "%d.pkl" % i)
                    if os.path.exists(fp):
                        b = open(fp, "rb").read()
                        recs.append({"t": "det", "ctx": "cli-rayon%d-file%d" % (threads, i), "job": c["id"], "res": 1, "digest": fnv64(b), "len": len(b)})
                    else:
                        recs.append({"t": "det", "ctx": "cli-rayon%d-file%d" % (threads, i), "job": c["id"], "res": 2, "digest": "missing", "len": 0})
                shutil.rmtree(od, ignore_errors=True)
        hf = os.path.join(d, "det_hist.ndjson")
        open(hf, "w").write("\n".join(json.dumps(r) for r in recs) + "\n")
        findings, states = validate_history("det", hf)
        byid = {j["id"]: j for j in J.jobs}; byid.update({c["id"]: c for c in cli_cases})
        out = split_findings(findings, recs)
        for f in out:
            if f["record"]: f["job"] = byid.get(f["record"]["job"])
        ctxs = sorted({r["ctx"].split("-")[0] for r in recs})
        return {"findings": out, "coverage": {"grid_points": len(J.jobs) + len(cli_cases), "generations": len(recs), "contexts": ctxs,
                "threads": 16, "processes": spec["procs"], "rayon_worker_counts": [1, 2, 16], "tlc_states": states},
                "samples": recs[:2] + recs[-2:]}
    return cached(key, "det_%s_%d" % (tier_, seed()), compute)

# ---------------------------------------------------------------- C09
def total_stage(tier_, key):
    def compute(d):
        build_harness()
        q = tier_ == "quick"
        batches = []
        def add(c, kind, n=0, maxlen=0):
            batches.append({"id": len(batches) + 1, "cfg": c, "kind": kind, "n": n, "maxlen": maxlen, "seed": sub_seed("total", len(batches))})
        allm = corpus.MUTS
        for P in range(6):
            add(corpus.cfg(P, 3, 12), "all2")
            for m in (corpus.MUTS[:6] if (not q or P in (1, 3, 5)) else ["character", "stringlen"]):
                add(corpus.cfg(P, 1, 1, muts=[m], rate=1.0, ext=True, buf=True), "all2")
            add(corpus.cfg(P, 3, 12, muts=allm, rate=1.0, unsafe=True, ext=True, buf=True), "all2")
            variants = [corpus.cfg(P), corpus.cfg(P, 0, 0), corpus.cfg(P, 50, 3, ext=True, buf=True),
                        corpus.cfg(P, 30, 120, muts=allm, rate=1.0, unsafe=True),
                        corpus.cfg(P, 30, 120, muts=allm, rate=1.0),
                        dict(corpus.cfg(P, 20, 80, muts=allm), rate_special="nan"),
                        dict(corpus.cfg(P, 20, 80, muts=allm, unsafe=True), rate_special="inf"),
                        corpus.cfg(P, 20, 80, muts=allm, rate=7.5, rate_raw=True),
                        corpus.cfg(P, 20, 80, muts=list(reversed(allm)), rate=-3.0, rate_raw=True, unsafe=True),
                        corpus.cfg(P, 20, 80, muts=["typeconfusion", "typeconfusion"], rate=1.0, unsafe=True),
                        corpus.cfg(P, 20, 80, muts=corpus.DUP_LISTS[P % 4] + corpus.DUP_LISTS[(P + 1) % 4], rate=0.6, unsafe=True, ext=True, buf=True),
                        corpus.cfg(P, 20, 80, muts=allm + allm, rate=1.0, bufsize=[0, 1, 64][P % 3])]
            for v in variants:
                add(v, "random", n=400 if q else 4000, maxlen=4096)
                add(v, "seeds", n=300 if q else 3000)
            # value-directed inputs: tiny programs whose first value opcode receives boundary bit patterns
            for ms in ([[m] for m in corpus.MUTS[:6]] + [allm]) if (not q or P in (0, 2, 5)) else [["offbyone"], ["bitflip"], allm]:
                add(corpus.cfg(P, 1, 2, muts=ms, rate=1.0, ext=True, buf=True), "shaped")
            # several KiB of periodic input on a 2 MiB thread stack (deepest nesting such input can build)
            add(corpus.cfg(P, 8192, 8192), "nest", n=40 if q else 400, maxlen=8192)
            add(corpus.cfg(P, 20000, 20001) if q else corpus.cfg(P, 50000, 50001), "seeds", n=1)
            add(corpus.cfg(P, 5000, 9000, muts=allm, rate=1.0, unsafe=True), "random", n=2, maxlen=60000)
        spec = {"batches": batches, "timeout_s": 600 if q else 3000, "parallel": CORES - 2}
        sf = os.path.join(d, "total_spec.json"); json.dump(spec, open(sf, "w"))
        of = os.path.join(d, "total.ndjson")
        run([PFV, "total", sf, of], timeout=7200)
        recs = [json.loads(l) for l in open(of) if l.strip()]
        for r in recs: r["t"] = "total"
        hf = os.path.join(d, "total_hist.ndjson")
        open(hf, "w").write("\n".join(json.dumps(r) for r in recs) + "\n")
        findings, states = validate_history("total", hf)
        byid = {b["id"]: b for b in batches}
        out = split_findings(findings, recs)
        for f in out:
            if f["record"]: f["batch"] = byid.get(f["record"]["id"])
        return {"findings": out, "coverage": {"batches": len(batches), "generation_calls": sum(r["calls"] for r in recs),
                "all_byte_strings_up_to_length_2_per_config": 65793, "configs_with_exhaustive_short_inputs": 12,
                "largest_opcode_count": 20001 if q else 50001, "tlc_states": states},
                "samples": recs[:3]}
    return cached(key, "total_%s_%d" % (tier_, seed()), compute)

# ---------------------------------------------------------------- C12
def vocab_stage(tier_, key):
    def compute(d):
        build_harness()
        q = tier_ == "quick"
        n = 5000 if q else 30000
        spec = {"protocols": list(range(6)), "first_seed": 0, "n": n, "threads": CORES - 2}
        sf = os.path.join(d, "opscan_spec.json"); json.dump(spec, open(sf, "w"))
        of = os.path.join(d, "opscan.ndjson")
        run([PFV, "opscan", sf, of], timeout=7200)
        scans = [json.loads(l) for l in open(of) if l.strip()]
        # an extra block offset by VERIF_SEED can only add witnesses
        extra = []
        if seed() != 0:
            spec2 = dict(spec, first_seed=1000000 + (seed() % 1000000) * 10, n=1000)
            json.dump(spec2, open(sf, "w")); run([PFV, "opscan", sf, of], timeout=7200)
            extra = [json.loads(l) for l in open(of) if l.strip()]
        # opt-in opcodes: "counted only when enabled" - so they must occur when they ARE enabled.  Each process
        # scans the flag settings one after the other (EXT only, buffers only, both), in two different orders.
        n_opt = 1500 if q else 8000
        optscans = []
        for order in ([[True, False], [False, True], [True, True]], [[False, True], [True, False]]):
            spec3 = {"protocols": [2, 3, 4, 5], "first_seed": 0, "n": n_opt, "threads": CORES - 2, "variants": order}
            json.dump(spec3, open(sf, "w")); run([PFV, "opscan", sf, of], timeout=7200)
            optscans.append([json.loads(l) for l in open(of) if l.strip()])
        jobs, claims = [], {}
        def take(sc):
            P, ext, buf = sc["P"], bool(sc.get("ext", 0)), bool(sc.get("buf", 0))
            for op, s in sc["first"]:
                s = int(s)
                k = (P, s, ext, buf)
                if k not in claims:
                    claims[k] = []
                    jobs.append({"id": len(jobs) + 1, "cfg": corpus.cfg(P, ext=ext, buf=buf), "mode": "seed", "seed": s})
                if op not in claims[k]: claims[k].append(op)
        for sc in scans + extra: take(sc)
        jf = os.path.join(d, "vocab_jobs.json")
        lf = os.path.join(d, "vocab_lib.ndjson")
        def records(job_list, ends):
            json.dump(job_list, open(jf, "w"))
            run([PFV, "libgen", jf, lf], timeout=3600)
            lib = {}
            for l in open(lf):
                if l.strip():
                    r = json.loads(l); lib[r["id"]] = r
            out = []
            for j in job_list:
                c = j["cfg"]; P, s = c["P"], j["seed"]
                out.append({"t": "vocab", "P": P, "ext": int(c["ext"]), "buf": int(c["buf"]), "seed": str(s),
                            "bytes": list(bytes.fromhex(lib[j["id"]]["hex"])), "claims": claims[(P, s, c["ext"], c["buf"])]})
            return out + ends
        recs = records(jobs, [{"t": "vocabend", "P": P, "ext": 0, "buf": 0, "first_seed": 0, "n": n} for P in range(6)])
        n_default = len(jobs)
        # every opt-in scan is judged on its own (its own coverage sets): each process order must reach every opcode
        for oscan in optscans:
            own = {}
            for sc in oscan:
                P, ext, buf = sc["P"], bool(sc["ext"]), bool(sc["buf"])
                for op, s in sc["first"]:
                    own.setdefault((P, int(s), ext, buf), []).append(op)
            ojobs = [{"id": i + 1, "cfg": corpus.cfg(P, ext=ext, buf=buf), "mode": "seed", "seed": s} for i, (P, s, ext, buf) in enumerate(sorted(own))]
            for (P, s, ext, buf), ops_ in own.items(): claims[(P, s, ext, buf)] = ops_
            ends = [{"t": "vocabend", "P": sc["P"], "ext": sc["ext"], "buf": sc["buf"], "first_seed": 0, "n": n_opt} for sc in oscan]
            recs.append({"t": "vocabreset"})
            recs += records(ojobs, ends)
        hf = os.path.join(d, "vocab_hist.ndjson")
        open(hf, "w").write("\n".join(json.dumps(r) for r in recs) + "\n")
        findings, states = validate_history("vocab", hf)
        rarest = {}
        for sc in scans:
            f = {int(k): int(s) for k, s in sc["first"]}
            k = max(f, key=f.get); rarest["P%d" % sc["P"]] = {"opcode_or_frame_key": k, "first_seed": f[k], "distinct_witnessed": len(f)}
        small = [dict(r, bytes="(%d bytes)" % len(r["bytes"])) if r["t"] == "vocab" else r for r in recs]
        return {"findings": split_findings(findings, small), "coverage": {"seeds_per_protocol": n, "seeds_per_opt_in_setting": n_opt,
                "opt_in_scan_orders": 2, "witness_generations_validated": sum(1 for r in recs if r["t"] == "vocab"),
                "rarest": rarest, "tlc_states": states}, "samples": small[:2]}
    return cached(key, "vocab_%s_%d" % (tier_, seed()), compute)

# ---------------------------------------------------------------- C14
def leak_stage(tier_, key):
    def compute(d):
        build_harness()
        q = tier_ == "quick"
        J = corpus.Jobs("leak-" + tier_)
        for P in range(6):
            for i in range(120 if q else 1500):
                J.seed_job(corpus.cfg(P), seed=i + 1 + (seed() % 1000) * 100000)
            for _ in range(20 if q else 200):
                J.bytes_job(corpus.cfg(P), blen=3000)
                J.seed_job(corpus.cfg(P, 60, 300, muts=corpus.MUTS, rate=0.5, ext=True, buf=True))
                J.seed_job(corpus.cfg(P, 60, 300, muts=corpus.MUTS, rate=0.5, unsafe=True))
            # long reuse of one generator: every call must release what the previous one allocated
            J.seed_job(corpus.cfg(P), warm=200 if q else 3000)
            J.bytes_job(corpus.cfg(P), blen=2000, warm=200 if q else 3000)
            J.seed_job(corpus.cfg(P, 2000, 3000), warm=2)
            # short-lived worker threads: construct, generate, drop, join - the thread's own allocations
            # (thread-locals, per-thread tables) must be gone afterwards
            for _ in range(6 if q else 60):
                J.seed_job(corpus.cfg(P), thread=True)
            J.bytes_job(corpus.cfg(P, ext=True, buf=True), blen=2000, thread=True)
            # one generator, hundreds of different pickles: what it still holds after reset() must not keep growing
            J.bytes_job(corpus.cfg(P, ext=True, buf=True), blen=3000, growth=150 if q else 1500)
            # the buffer-size option with inputs shorter and longer than it
            for bs, bl in ((4096, 100), (4096, 6000), (64, 10), (0, 50)):
                J.bytes_job(corpus.cfg(P, bufsize=bs), blen=bl)
                J.bytes_job(corpus.cfg(P, bufsize=bs), blen=bl, warm=3)
            J.seed_job(corpus.cfg(P, bufsize=512), warm=2)
            J.bytes_job(corpus.cfg(P, 60, 300, muts=corpus.MUTS, rate=0.5, unsafe=True, ext=True), blen=3000, growth=100 if q else 1000)
        jf = os.path.join(d, "leak_jobs.json"); json.dump(J.jobs, open(jf, "w"))
        of = os.path.join(d, "leak.ndjson")
        run([PFV, "leak", jf, of], timeout=7200)
        recs = [json.loads(l) for l in open(of) if l.strip()]
        for r in recs: r["t"] = "leak"
        hf = os.path.join(d, "leak_hist.ndjson")
        open(hf, "w").write("\n".join(json.dumps(r) for r in recs) + "\n")
        findings, states = validate_history("leak", hf)
        byid = {j["id"]: j for j in J.jobs}
        out = split_findings(findings, recs)
        for f in out:
            if f["record"]: f["job"] = byid.get(f["record"]["id"])
        return {"findings": out, "coverage": {"generators_measured": len(recs), "generation_calls": sum(r["calls"] for r in recs),
                "with_reference_cycle": sum(1 for r in recs if r["cycle"]), "leaking": sum(1 for r in recs if r["leaked"] != 0),
                "longest_reuse": max(r["calls"] for r in recs), "tlc_states": states}, "samples": recs[:2]}
    return cached(key, "leak_%s_%d" % (tier_, seed()), compute)

# ---------------------------------------------------------------- C14: object graph (Heap.tla / TraceHeap.tla)
# aliasing-relevant opcodes: markers, one scalar, callables, every container constructor and
# mutator, every object constructor, DUP / POP / POP_MARK, every memo write and read
HEAP_OPS = [0x28, 0x4e, 0x63, 0x5d, 0x6c, 0x7d, 0x64, 0x29, 0x74, 0x85, 0x86, 0x87, 0x8f, 0x91, 0x90, 0x61, 0x65, 0x73, 0x75,
            0x52, 0x62, 0x69, 0x6f, 0x81, 0x92, 0x32, 0x30, 0x31, 0x70, 0x71, 0x67, 0x68, 0x94]

def heap_stage(tier_, key):
    def compute(d):
        build_harness()
        q = tier_ == "quick"
        specs = []
        for P in range(6):
            specs.append({"tag": "P%d" % P, "cfg": corpus.cfg(P, 0, 0), "depth": 6 if q else 7, "log_depth": 4 if q else 5,
                          "ops": HEAP_OPS, "seeds": [1, 2, 3], "max_nodes": 0 if q else 2500000})
            # type-confusing guards: only the implementation is explored (Heap.tla models the safe guards)
            specs.append({"tag": "P%d-unsafe" % P, "cfg": corpus.cfg(P, 0, 0, unsafe=True), "depth": 5 if q else 6, "log_depth": 0,
                          "ops": HEAP_OPS + [0x56, 0x93, 0x51], "seeds": [1, 2, 3], "max_nodes": 0 if q else 2500000})
            # random walks far beyond the breadth-first depth: every aliasing-relevant transition is validated
            specs.append({"tag": "P%d-walk" % P, "cmd": "heapwalk", "cfg": corpus.cfg(P, 0, 0), "walks": 60 if q else 500, "steps": 60 if q else 90,
                          "ops": HEAP_OPS, "seed": sub_seed("heapwalk", tier_) % (2 ** 32) + P, "bias": 4})
        def bfs(ix_spec):
            ix, sp = ix_spec
            sf = os.path.join(d, "heap_spec_%d.json" % ix); json.dump(sp, open(sf, "w"))
            of = os.path.join(d, "heap_%d.ndjson" % ix)
            p = run([PFV, sp.get("cmd", "heapbfs"), sf, of], timeout=7200)
            summ = json.loads(p.stdout.strip().split("\n")[-1]); summ["tag"] = sp["tag"]
            return of, summ
        from concurrent.futures import ThreadPoolExecutor
        def explore(specs_, first):
            with ThreadPoolExecutor(max_workers=max(1, CORES - 2)) as ex:
                outs = list(ex.map(bfs, [(first + k, sp) for k, sp in enumerate(specs_)]))
            findings, states, recs_n = [], 0, 0
            with ThreadPoolExecutor(max_workers=max(1, (CORES - 2) // 2)) as ex:
                vals = list(ex.map(lambda o: validate_history("heap%s" % os.path.basename(o[0]).split(".")[0], o[0], module="TraceHeap"), outs))
            for (of, summ), (fs, st) in zip(outs, vals):
                recs = [json.loads(l) for l in open(of) if l.strip()]
                recs_n += len(recs); states += st
                for f in split_findings(fs, recs):
                    if f["record"] is not None:
                        r = f["record"]
                        # keep the replay small: the heaps are recomputed by replaying the path
                        f["record"] = {k: r[k] for k in ("t", "P", "op", "key", "path", "claimed", "keys", "seeds", "cycle", "leaked", "walk", "at") if k in r}
                        f["record"]["bfs"] = summ["tag"]
                    findings.append(f)
            return findings, states, recs_n, [o[1] for o in outs]
        findings, states, recs_n, summaries = explore(specs, 0)
        # drift-directed: where the implementation's aliasing differs from the model, search deeper from there
        drift = [f for f in findings if f["kind"] == "D" and f["tag"] == "heap-effect" and f["record"] and "walk" not in f["record"]]
        extra, seen = [], set()
        for f in sorted(drift, key=lambda f: len(f["record"]["path"])):
            r = f["record"]
            k = (r["P"], r["op"])
            if k in seen and len(extra) >= 6: continue
            seen.add(k)
            if len(extra) >= 18: break
            extra.append({"tag": "P%d-after-drift" % r["P"], "cfg": corpus.cfg(r["P"], 0, 0), "prefix": r["path"] + [r["op"]],
                          "depth": 4 if q else 5, "log_depth": 0, "ops": HEAP_OPS, "seeds": [1, 2, 3], "max_nodes": 400000})
        if extra:
            f2, s2, n2, sm2 = explore(extra, 100)
            findings += [f for f in f2 if f["kind"] == "V"]; states += s2; recs_n += n2; summaries += sm2
        return {"findings": findings,
                "coverage": {"bfs_runs": summaries, "heap_states_visited": sum(s["nodes"] for s in summaries if "walk" not in s["tag"]),
                             "random_walks": sum(s["nodes"] for s in summaries if "walk" in s["tag"]),
                             "forced_transitions": sum(s["trials"] for s in summaries),
                             "transitions_validated_against_Heap_tla": sum(s["steps_logged"] for s in summaries),
                             "states_with_cycle": sum(s["with_cycle"] for s in summaries), "states_leaking": sum(s["leaking"] for s in summaries),
                             "drift_directed_runs": len(extra), "records": recs_n, "tlc_states": states},
                "samples": []}
    return cached(key, "heap_%s_%d" % (tier_, seed()), compute)

# ---------------------------------------------------------------- C15 / C16 / C18: direct calls
def calls_stage(tier_, key):
    def compute(d):
        build_harness()
        q = tier_ == "quick"
        spec = {"seed": sub_seed("calls", tier_), "two_byte": 300 if q else 65536, "longer": 60 if q else 400,
                "rand_states": 40 if q else 200, "values": 12 if q else 60, "shards": CORES - 2}
        sf = os.path.join(d, "calls_spec.json"); json.dump(spec, open(sf, "w"))
        prefix = os.path.join(d, "calls_")
        for f in os.listdir(d):
            if f.startswith("calls_ent_") or f.startswith("calls_mut_"): os.remove(os.path.join(d, f))
        p = run([PFV, "calls", sf, prefix], timeout=7200, check=False)
        files = [os.path.join(d, f) for f in sorted(os.listdir(d)) if f.startswith("calls_ent_") or f.startswith("calls_mut_")]
        last = json.loads(p.stdout.strip().split("\n")[-1]) if p.stdout.strip() else {}
        if p.returncode == 3 and "hang" in last:
            # a direct call did not return: keep the complete records, add one record for the hanging call
            n_ent = n_mut = 0
            for fp in files:
                good = [l for l in open(fp).read().split("\n") if l.endswith("}")]
                ok = []
                for l in good:
                    try: json.loads(l); ok.append(l)
                    except Exception: pass
                open(fp, "w").write("\n".join(ok) + ("\n" if ok else ""))
                if "calls_ent_" in fp: n_ent += len(ok)
                else: n_mut += len(ok)
            hang = json.loads(last["hang"]) if last["hang"] else {"t": "mut", "mut": 0, "um": 0, "rate": 0, "sk": 2, "src": []}
            hang.update({"meth": "int", "in": [0, 0], "out": {"some": 0, "v": []}, "panic": "call did not return within 20 s (mutator, source and rate as recorded; method unknown)"})
            hf = os.path.join(d, "calls_mut_hang.ndjson"); open(hf, "w").write(json.dumps(hang) + "\n"); files.append(hf)
            files = [f for f in files if os.path.getsize(f) > 0]
            counts = {"ent": n_ent, "mut": n_mut + 1}
        elif p.returncode != 0:
            raise ToolError("pfv calls failed: %s" % (p.stdout or "")[-2000:])
        else:
            counts = last
        res = tlc.run_trace_shards("calls", "TraceCalls.tla", "TraceCalls.cfg", files, timeout=7200)
        findings, done, states = [], 0, 0
        for fp, (vals, st, wall) in zip(files, res):
            states += st["distinct"]
            lines = None
            for v in vals:
                if v and v[0] == "MSGS":
                    for m in v[1]:
                        if lines is None: lines = open(fp).read().split("\n")
                        findings.append({"kind": m[0], "tag": m[2], "why": flat(m[3]), "record": json.loads(lines[m[1] - 1])})
                elif v and v[0] == "DONE":
                    done += v[1]
        if done != counts["ent"] + counts["mut"]:
            raise ToolError("call validation incomplete: %d of %d records" % (done, counts["ent"] + counts["mut"]))
        # distinct non-trivial cases: distinct (method/mutator, argument, source) tuples whose call did something
        ent_keys, mut_keys, fired, samples = set(), set(), 0, []
        for fp in files:
            for l in open(fp):
                r = json.loads(l)
                if r["t"] == "ent":
                    if r["m"] in ("choose_index", "gen_range") and r["a"] != [0, 0, 0, 0]:
                        ent_keys.add((r["m"], tuple(r["a"]), tuple(r["b"]), r["sk"], tuple(r["src"])))
                else:
                    if r["out"]["some"] == 1:
                        fired += 1
                        mut_keys.add((r["mut"], r["um"], r["meth"], tuple(r["in"]), tuple(r["out"]["v"])))
                if len(samples) < 6 and ((r["t"] == "ent" and r["sk"] == 2 and len(r["src"]) == 2 and r["m"] == "gen_range")
                                         or (r["t"] == "mut" and r["out"]["some"] == 1 and r["meth"] in ("string", "post"))):
                    samples.append(r)
        for fp in files: os.remove(fp)
        return {"findings": findings[:500], "n_findings": len(findings),
                "coverage": {"entropy_calls": counts["ent"], "mutator_calls": counts["mut"], "mutator_calls_that_fired": fired,
                             "distinct_entropy_cases": len(ent_keys), "distinct_mutation_results": len(mut_keys),
                             "all_fuzzer_inputs_up_to_length_1": True, "all_fuzzer_inputs_of_length_2": not q, "tlc_states": states},
                "samples": samples}
    return cached(key, "calls_%s_%d" % (tier_, seed()), compute)

# ---------------------------------------------------------------- C13: front ends
def cli_args(o, target):
    a = list(target)
    if o["protocol"] >= 0: a += ["--protocol", str(o["protocol"])]
    a += ["--seed", str(real_seed(o))]
    a += ["--min-opcodes", str(o["min"]), "--max-opcodes", str(o["max"])]
    if o["muts"]: a += ["--mutators"] + list(o["muts"])
    a += ["--mutation-rate", "%.3f" % (o["rate1000"] / 1000.0)]
    if o["unsafe"]: a.append("--unsafe-mutations")
    if o["ext"]: a.append("--allow-ext")
    if o["buf"]: a.append("--allow-buffer")
    return a

def seed_limbs(x):
    return [(x >> (16 * i)) & 0xFFFF for i in range(4)]

def real_seed(o):
    return sum(l << (16 * i) for i, l in enumerate(o["seedl"]))

def lib_cfg_of(o):
    """the driver's own reading of the options (validated against Frontend!CliConfig by TLC)"""
    muts = list(o["muts"])
    if "all" in muts:
        muts = ["bitflip", "boundary", "offbyone", "stringlen", "character", "typeconfusion"] + (["memoindex"] if o["unsafe"] else [])
    withm = bool(muts)
    return {"P": o["protocol"] if o["protocol"] >= 0 else real_seed(o) % 6, "seed": o["seed"], "seedl": o["seedl"], "min": o["min"], "max": o["max"], "muts": muts,
            "rate1000": max(0, min(1000, o["rate1000"])) if withm else 100, "unsafe": o["unsafe"] if withm else 0,
            "mutUnsafe": o["unsafe"] if withm else 0, "ext": o["ext"], "buf": o["buf"]}

def harness_job(jid, lc, data=None):
    c = corpus.cfg(lc["P"], lc["min"], lc["max"], muts=lc.get("muts", []), rate=lc.get("rate1000", 100) / 1000.0,
                   unsafe=bool(lc.get("unsafe", 0)), mut_unsafe=bool(lc.get("mutUnsafe", 0)), ext=bool(lc.get("ext", 0)), buf=bool(lc.get("buf", 0)))
    if data is None:
        return {"id": jid, "cfg": c, "mode": "seed", "seed": real_seed(lc) if "seedl" in lc else lc["seed"]}
    return {"id": jid, "cfg": c, "mode": "bytes", "seed": 0, "bytes": list(data)}

def front_stage(tier_, key):
    def compute(d):
        build_harness()
        exe = build_cli()
        q = tier_ == "quick"
        rng = random.Random(sub_seed("front", tier_))
        # ordered lists (not alphabetical), repeated names: the list is a sequence, the first applicable mutator wins
        mut_choices = [[], ["all"], ["bitflip", "character"], ["memoindex", "offbyone"]] + [[m] for m in corpus.MUTS] + [
            ["offbyone", "bitflip"], ["stringlen", "character", "boundary"], ["bitflip", "boundary", "bitflip"], ["memoindex", "memoindex", "offbyone"]]
        def rand_opts(i):
            sd = rng.choice([rng.randrange(0, 2 ** 31 - 1), rng.randrange(0, 2 ** 31 - 1), rng.randrange(2 ** 32, 2 ** 34), rng.randrange(2 ** 63, 2 ** 64), 2 ** 32 + rng.randrange(6)])
            return {"protocol": rng.choice([-1, -1, 0, 1, 2, 3, 4, 5]), "seed": sd if sd < 2 ** 31 else -2, "seedl": seed_limbs(sd),
                    "min": rng.choice([60, 5, 30, 0]), "max": rng.choice([300, 20, 3, 40]),
                    "muts": mut_choices[i % len(mut_choices)], "rate1000": rng.choice([100, 0, 1000, 370, 2500]),
                    "unsafe": rng.choice([0, 0, 1]), "ext": rng.choice([0, 1]), "buf": rng.choice([0, 1])}
        cases = []
        n_single = 44 if q else 400
        for i in range(n_single):
            cases.append({"id": len(cases) + 1, "kind": "cli", "mode": "single", "opts": rand_opts(i)})
        for i in range(12 if q else 80):
            cases.append({"id": len(cases) + 1, "kind": "cli", "mode": "batch", "opts": rand_opts(i * 3 + 1), "n": rng.choice([1, 3, 17]),
                          "threads": rng.choice([1, 4, 16])})
        for i in range(24 if q else 90):
            cases.append({"id": len(cases) + 1, "kind": "cli", "mode": "action", "opts": rand_opts(i * 5 + 2), "n": rng.choice([0, 2])})
        # option interactions: protocol left to the seed (every residue mod 6) together with each opt-in flag
        for r in range(6):
            for ext, buf in ((1, 1), (0, 1), (1, 0)):
                sd = 6 * rng.randrange(1, 10 ** 6) + r
                o = dict(rand_opts(r), protocol=-1, seed=sd, seedl=seed_limbs(sd), ext=ext, buf=buf, min=30, max=60)
                cases.append({"id": len(cases) + 1, "kind": "cli", "mode": ("single", "batch", "action")[(r + ext + 2 * buf) % 3], "opts": o,
                              "n": 2, "threads": 2})
        # boundary seeds: 0 is a seed like any other (protocol 0 when none is given), so are 1 and 2^64-1
        for sd in (0, 1, 2 ** 64 - 1, 6, 2 ** 32):
            for mode in ("single", "batch", "action"):
                o = dict(rand_opts(sd % 7), protocol=-1 if mode != "batch" else rng.choice([-1, 3]), seed=sd if sd < 2 ** 31 else -2, seedl=seed_limbs(sd), min=20, max=50)
                cases.append({"id": len(cases) + 1, "kind": "cli", "mode": mode, "opts": o, "n": 2, "threads": 2})
        cases.append({"id": len(cases) + 1, "kind": "cli", "mode": "batch-fail", "opts": rand_opts(1), "n": 3, "threads": 2})
        # one of the files can be opened but not written (<dir>/1.pkl -> /dev/full): "exits 0 only if all were written"
        if os.path.exists("/dev/full"):
            for k in range(2):
                cases.append({"id": len(cases) + 1, "kind": "cli", "mode": "batch-writefail", "opts": dict(rand_opts(7 + k), min=5, max=40), "n": 3, "threads": 1 + k})
        # library runs for the configuration the driver believes the options denote
        jobs = [harness_job(c["id"], lib_cfg_of(c["opts"])) for c in cases]
        # python cases
        pycases = []
        for i in range(14 if q else 80):
            P = rng.randrange(6); sd = rng.choice([-1, rng.randrange(1, 2 ** 31 - 1), rng.randrange(1, 2 ** 31 - 1)])
            calls = [["new", P, sd]]
            for _ in range(rng.choice([0, 1, 1, 2])):
                calls.append(rng.choice([["range", rng.choice([3, 10]), rng.choice([12, 40])], ["reset", 0, 0]]))
            usebytes = sd < 0 or rng.random() < 0.5
            data = [rng.randrange(256) for _ in range(rng.randrange(0, 300))] if usebytes else None
            via = "generator" if (not usebytes or rng.random() < 0.5) else "mutator"
            extra_gen = rng.choice([0, 1, 2])          # earlier generation calls on the same object
            calls2 = calls + [["gen", 0, 0]] * (extra_gen + 1)
            pc = {"id": 10000 + i, "kind": "py", "via": via, "calls": calls2, "data": data,
                  "maxsize": rng.choice([-1, 10, 50, 100000]) if via == "mutator" else -1}
            if via == "mutator" and pc["maxsize"] < 0: pc["maxsize"] = 100000
            pycases.append(pc)
        def pycfg(calls):
            c = {"P": 3, "seed": -1, "min": 60, "max": 300}
            for x in calls:
                if x[0] == "new": c = {"P": x[1], "seed": x[2], "min": 60, "max": 300}
                elif x[0] == "range": c["min"], c["max"] = x[1], x[2]
            return c
        for pc in pycases:
            lc = pycfg(pc["calls"])
            pc["libcfg"] = lc
            jobs.append(harness_job(pc["id"], dict(lc, seed=max(lc["seed"], 0)), data=pc["data"]) if pc["data"] is not None else harness_job(pc["id"], lc))
        jf = os.path.join(d, "front_jobs.json"); json.dump(jobs, open(jf, "w"))
        lf = os.path.join(d, "front_lib.ndjson")
        run([PFV, "libgen", jf, lf], timeout=3600)
        lib = {}
        for l in open(lf):
            if l.strip():
                r = json.loads(l); lib[r["id"]] = r["hex"]
        recs = []
        for c in cases:
            o = c["opts"]; what = "%s %s" % (c["mode"], json.dumps(o))
            base = {"t": "front", "kind": "cli", "opts": o, "libcfg": lib_cfg_of(o), "what": what, "calls": []}
            if c["mode"] == "single":
                fp = os.path.join(d, "front_single.pkl")
                if os.path.exists(fp): os.remove(fp)
                if c["id"] % 2 == 1:
                    # history of the file system: a longer file from an earlier run is already there
                    open(fp, "wb").write(b"\x2e" * 300000); what += " [over an existing longer file]"; base["what"] = what
                p = run([exe] + cli_args(o, [fp]), check=False, timeout=600)
                got = open(fp, "rb").read().hex() if os.path.exists(fp) else ""
                recs.append(dict(base, exit=min(p.returncode, 1), want_exit=0, files=[], want_files=[], got=got, lib=lib[c["id"]], gotb=list(bytes.fromhex(got))))
            elif c["mode"] in ("batch", "batch-fail", "batch-writefail"):
                od = os.path.join(d, "front_batch")
                shutil.rmtree(od, ignore_errors=True)
                if os.path.exists(od): os.remove(od)
                if c["mode"] == "batch-fail":
                    open(od, "w").write("not a directory")
                elif c["mode"] == "batch-writefail":
                    os.makedirs(od); os.symlink("/dev/full", os.path.join(od, "1.pkl"))
                elif c["id"] % 2 == 1:
                    # the directory already holds longer files 0.pkl..N-1.pkl from an earlier, different run
                    os.makedirs(od)
                    for i in range(c["n"]):
                        open(os.path.join(od, "%d.pkl" % i), "wb").write(b"\x2e" * 300000)
                    base["what"] = what + " [over existing longer files]"
                p = run([exe] + cli_args(o, ["--dir", od, "--samples", str(c["n"])]), env={"RAYON_NUM_THREADS": str(c["threads"])}, check=False, timeout=1200)
                if c["mode"] == "batch-fail":
                    os.remove(od)
                    recs.append(dict(base, exit=min(abs(p.returncode), 1), want_exit=1, files=[], want_files=[], got="", lib=""))
                elif c["mode"] == "batch-writefail":
                    shutil.rmtree(od, ignore_errors=True)
                    recs.append(dict(base, exit=min(abs(p.returncode), 1), want_exit=1, files=[], want_files=[], got="", lib=""))
                else:
                    files = sorted(os.listdir(od), key=lambda f: (len(f), f)) if os.path.isdir(od) else []
                    got = [open(os.path.join(od, f), "rb").read().hex() for f in files]
                    recs.append(dict(base, exit=min(p.returncode, 1), want_exit=0, files=files, want_files=["%d.pkl" % i for i in range(c["n"])],
                                     got=got, lib=[lib[c["id"]]] * c["n"], gotb=list(bytes.fromhex(got[0])) if got else []))
                    shutil.rmtree(od, ignore_errors=True)
            else:   # GitHub-action wrapper
                # the seed is decimal text; zero-padded spellings denote the same number
                seed_text = str(real_seed(o)) if c["id"] % 3 else "00" + str(real_seed(o))
                env = {"PATH": os.path.dirname(exe) + ":" + os.environ.get("PATH", ""), "INPUT_SEED": seed_text,
                       "INPUT_MIN_OPCODES": str(o["min"]), "INPUT_MAX_OPCODES": str(o["max"]),
                       "INPUT_MUTATION_RATE": "%.3f" % (o["rate1000"] / 1000.0)}
                if o["protocol"] >= 0: env["INPUT_PROTOCOL"] = str(o["protocol"])
                if o["muts"]: env["INPUT_MUTATORS"] = ", ".join(o["muts"])
                # boolean inputs in the spellings the wrapper documents as on, and in spellings that are off
                ON = ["true", "TRUE", "True", "1", "yes", "YES", "Yes"]; OFF = [None, "", "false", "0", "no", "off", "False", "FALSE", "n"]
                for key, flag in (("INPUT_UNSAFE_MUTATIONS", o["unsafe"]), ("INPUT_ALLOW_EXT", o["ext"]), ("INPUT_ALLOW_BUFFER", o["buf"])):
                    v = ON[(c["id"] + len(key)) % len(ON)] if flag else OFF[(c["id"] + len(key)) % len(OFF)]
                    if v is not None: env[key] = v
                base["what"] = what + " env=" + json.dumps({k: v for k, v in env.items() if k.startswith("INPUT_")}, sort_keys=True)
                for k in list(os.environ):
                    if k.startswith("INPUT_"): os.environ.pop(k)
                if c["n"] == 0:
                    fp = os.path.join(d, "front_action.pkl")
                    if os.path.exists(fp): os.remove(fp)
                    env["INPUT_OUTPUT_FILE"] = fp
                    p = run(["bash", os.path.join(REPO, "scripts", "action-run.sh")], env=env, check=False, timeout=600)
                    got = open(fp, "rb").read().hex() if os.path.exists(fp) else ""
                    recs.append(dict(base, exit=min(p.returncode, 1), want_exit=0, files=[], want_files=[], got=got, lib=lib[c["id"]], gotb=list(bytes.fromhex(got))))
                else:
                    od = os.path.join(d, "front_action_dir"); shutil.rmtree(od, ignore_errors=True)
                    env["INPUT_OUTPUT_DIR"] = od; env["INPUT_SAMPLES"] = str(c["n"])
                    p = run(["bash", os.path.join(REPO, "scripts", "action-run.sh")], env=env, check=False, timeout=600)
                    files = sorted(os.listdir(od), key=lambda f: (len(f), f)) if os.path.isdir(od) else []
                    got = [open(os.path.join(od, f), "rb").read().hex() for f in files]
                    recs.append(dict(base, exit=min(p.returncode, 1), want_exit=0, files=files, want_files=["%d.pkl" % i for i in range(c["n"])],
                                     got=got, lib=[lib[c["id"]]] * c["n"], gotb=list(bytes.fromhex(got[0])) if got else []))
                    shutil.rmtree(od, ignore_errors=True)
        # python front end
        py_note = ""
        try:
            moddir = build_py()
            cf = os.path.join(d, "front_pycases.json"); json.dump(pycases, open(cf, "w"))
            rf = os.path.join(d, "front_pyres.json")
            run(["python3-vt", os.path.join(VERIF, "bin", "vlib", "pyfront_runner.py"), cf, rf], env={"PYTHONPATH": moddir}, timeout=1800)
            pyres = {r["id"]: r for r in json.load(open(rf))}
            for pc in pycases:
                r = pyres[pc["id"]]
                full = list(bytes.fromhex(lib[pc["id"]]))
                want = full[:pc["maxsize"]] if pc["via"] == "mutator" and len(full) > pc["maxsize"] else full
                if pc["libcfg"]["seed"] < 0 and pc["data"] is None:
                    continue
                recs.append({"t": "front", "kind": "py", "opts": {}, "calls": pc["calls"], "libcfg": pc["libcfg"], "what": "python %s %s" % (pc["via"], json.dumps(pc["calls"])),
                             "exit": 0 if r["ok"] else 1, "want_exit": 0, "files": [], "want_files": [], "got": r["got"], "lib": want})
        except ToolError as e:
            raise ToolError("python front end could not be built/run: %s" % str(e)[:2000])
        hf = os.path.join(d, "front_hist.ndjson")
        open(hf, "w").write("\n".join(json.dumps(r) for r in recs) + "\n")
        findings, states = validate_history("front", hf)
        small = [dict(r, got="...", lib="...") for r in recs]
        return {"findings": split_findings(findings, small), "coverage": {"cases": len(recs),
                "cli_single": sum(1 for c in cases if c["mode"] == "single"), "cli_batch": sum(1 for c in cases if c["mode"].startswith("batch")),
                "action_wrapper": sum(1 for c in cases if c["mode"] == "action"), "python_sequences": sum(1 for r in recs if r["kind"] == "py"),
                "tlc_states": states}, "samples": small[:2] + small[-2:]}
    return cached(key, "front_%s_%d" % (tier_, seed()), compute)
