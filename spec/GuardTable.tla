----------------------------- MODULE GuardTable -----------------------------
(* The model's guard table: for EVERY abstract stack up to TDepth cells (11 kinds,
   reachable or not) and a fixed memo shape, the set of opcodes GenCore!Guard enables.
   TLC prints one line per stack; the harness constructs each of these states in the
   REAL generator (one canonical opcode recipe per kind) and compares the
   implementation's get_valid_opcodes() with the line - exhaustive conformance of
   can_emit with the specification over the whole bounded domain, no TLC step per
   state.  Differences are drift; every opcode the implementation enables beyond the
   model is then forced and its real emission validated by TraceEdges.             *)
EXTENDS GenCore

CONSTANTS TP, TExt, TBuf, TUnsafe, TDepth, TKeys

VARIABLE s
Mc == [P |-> TP, unsafe |-> TUnsafe, ext |-> TExt, buf |-> TBuf, min |-> 0, max |-> 0]
Init == \E d \in 0..TDepth : s \in [1..d -> GenKinds]
Next == FALSE /\ s' = s
Spec == Init /\ [][Next]_s
(* enabled set as three 24-bit words over OpBytes positions (same encoding as the hook's mask) *)
RECURSIVE WordSum(_, _, _, _)
WordSum(en, w, j, acc) ==
    IF j > Len(OpBytes) \/ j > 24 * w THEN acc
    ELSE WordSum(en, w, j + 1, acc + (IF OpBytes[j] \in en THEN 2 ^ ((j - 1) % 24) ELSE 0))
Row == LET en == EnabledSet(Mc, s, TKeys) IN
       PrintT(<<"ROW", s, WordSum(en, 1, 1, 0), WordSum(en, 2, 25, 0), WordSum(en, 3, 49, 0)>>)
=============================================================================
