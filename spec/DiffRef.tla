------------------------------- MODULE DiffRef -------------------------------
(* Differential test of the reference itself: Lexer + RefPVM run over whole byte
   strings (valid corpus pickles and deliberately broken ones); one line of verdict
   per string is printed and compared by the self-test with CPython
   pickletools.genops / pickletools.dis.  Guards against a specification that is
   wrong in the permissive direction.                                            *)
EXTENDS Naturals, Integers, Sequences, FiniteSets, TLC, Json, IOUtils, Lexer, RefPVM

Rec == ndJsonDeserialize(IOEnv.TRACE)
N == Len(Rec)
VARIABLES i, out
vars == <<i, out>>
Init == i = 0 /\ out = <<>>

(* run the whole string: <<lex ok, lexer reason, first reference error class, opcodes executed>> *)
RECURSIVE Run(_, _, _, _)
Run(b, p, r, n) ==
    IF p > Len(b) THEN <<TRUE, "no STOP", "", n>>
    ELSE LET lx == LexAt(b, p) IN
         IF ~lx.known \/ ~lx.ok THEN <<FALSE, lx.why, "", n>>
         ELSE LET s == RefStep(r, lx.op, lx.arg) IN
              IF s.cls \notin {"", "kind"} THEN <<TRUE, "", s.cls, n + 1>>
              ELSE IF lx.op = B_STOP THEN <<TRUE, "", "", n + 1>>
              ELSE Run(b, lx.nxt, [stk |-> s.stk, memo |-> s.memo], n + 1)

Step == /\ i < N /\ i' = i + 1
        /\ out' = <<"R", Rec[i + 1].id>> \o Run(Rec[i + 1].bytes, 1, RefInit, 0)
Spec == Init /\ [][Step]_vars
Report == /\ (out = <<>> \/ PrintT(out))
          /\ (i < N \/ PrintT(<<"DONE", N, N>>))
=============================================================================
