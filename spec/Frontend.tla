------------------------------ MODULE Frontend ------------------------------
(* What configuration a front end's options denote (C13), transcribed from
   src/main.rs, src/cli.rs, src/mutators/mod.rs, scripts/action-run.sh and
   src/python.rs + python/pickle_fuzzer/fuzzer.py.

   CLI options record o:
     protocol (-1 = not given), seed (-1 = not given, -2 = too large for TLC: see seedl), seedl (16-bit limbs), min, max,
     muts (sequence of mutator names, possibly "all"), rate1000 (rate * 1000),
     unsafe, ext, buf (0/1)
   Library configuration record:
     P, seed, min, max, muts (mutator names in registration order), rate1000,
     unsafe, mutUnsafe, ext, buf                                                  *)
EXTENDS Naturals, Integers, Sequences

AllMutators(unsafe) ==
    <<"bitflip", "boundary", "offbyone", "stringlen", "character", "typeconfusion">>
    \o (IF unsafe = 1 THEN <<"memoindex">> ELSE <<>>)

(* seeds are u64: they travel as four little-endian 16-bit limbs; 65536^i = 4 (mod 6) for i >= 1 *)
SeedMod6(l) == (l[1] + 4 * (l[2] + l[3] + l[4])) % 6

Clamp1000(r) == IF r < 0 THEN 0 ELSE IF r > 1000 THEN 1000 ELSE r

CliConfig(o) ==
    LET muts == IF \E j \in 1..Len(o.muts) : o.muts[j] = "all" THEN AllMutators(o.unsafe) ELSE o.muts
        withM == muts # <<>>
    IN [P |-> IF o.protocol >= 0 THEN o.protocol ELSE SeedMod6(o.seedl),
        seed |-> o.seed, seedl |-> o.seedl,
        min |-> o.min, max |-> o.max,
        muts |-> muts,
        \* rate and the unsafe flag are applied together with the mutator list only
        rate1000 |-> IF withM THEN Clamp1000(o.rate1000) ELSE 100,
        unsafe |-> IF withM THEN o.unsafe ELSE 0,
        mutUnsafe |-> IF withM THEN o.unsafe ELSE 0,
        ext |-> o.ext, buf |-> o.buf]

(* Python object life cycle: calls is a sequence of <<name, a, b>>:
     <<"new", protocol, seed>> (seed -1 = None), <<"range", min, max>>,
     <<"reset", 0, 0>>, <<"gen", 0, 0>> (a generation call)                       *)
RECURSIVE PyFold(_, _, _)
PyFold(calls, k, c) ==
    IF k > Len(calls) THEN c
    ELSE LET x == calls[k] IN
      PyFold(calls, k + 1,
        CASE x[1] = "new" -> [P |-> x[2], seed |-> x[3], min |-> 60, max |-> 300]
          [] x[1] = "range" -> [c EXCEPT !.min = x[2], !.max = x[3]]
          [] OTHER -> c)
PyConfig(calls) == PyFold(calls, 1, [P |-> 3, seed |-> -1, min |-> 60, max |-> 300])

(* PickleMutator.mutate(data, max_size): library bytes, truncated *)
Truncated(lib, maxsize) == IF maxsize >= 0 /\ Len(lib) > maxsize THEN SubSeq(lib, 1, maxsize) ELSE lib
=============================================================================
