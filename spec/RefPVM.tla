------------------------------- MODULE RefPVM -------------------------------
(* The reference pickle machine: CPython pickletools.dis stack / memo discipline
   (flat stack, MARK is an element, MARK-consuming opcodes cut back to the topmost
   MARK) extended with operand KINDS and the operand-kind rules of property C03.
   Written from the CPython documentation, independent of src/.

   A reference state is [stk, memo]; RefStep returns the successor together with
   the first error of the step:
     class "stack" | "mark" | "stop"                      (property C01)
           "memoGet" | "memoPut" | "memoMark" | "memoEmpty" (property C02)
           "kind"                                          (property C03)      *)
EXTENDS Naturals, Integers, Sequences, FiniteSets, TLC, PickleOps

K_Mark == 0
K_Scalar == 1
K_Bytes == 2
K_Str == 3
K_List == 4
K_Tuple == 5
K_Dict == 6
K_Set == 7
K_FrozenSet == 8
K_Callable == 9
K_Instance == 10
K_Any == 11
RefKinds == 0..11
NonData == {K_Callable, K_Instance, K_Any}

RefInit == [stk |-> <<>>, memo |-> <<>>]

RECURSIVE MarkFrom(_, _)
MarkFrom(s, k) == IF k = 0 THEN 0 ELSE IF s[k] = K_Mark THEN k ELSE MarkFrom(s, k - 1)
TopMark(s) == MarkFrom(s, Len(s))

NonMark(k) == IF k = K_Mark THEN K_Any ELSE k

ScalarOps == {B_INT, B_BININT, B_BININT1, B_BININT2, B_LONG, B_LONG1, B_LONG4,
              B_FLOAT, B_BINFLOAT, B_NONE, B_NEWTRUE, B_NEWFALSE}
OpenStrOps == {B_STRING, B_BINSTRING, B_SHORT_BINSTRING}
StrOps == {B_UNICODE, B_BINUNICODE, B_SHORT_BINUNICODE, B_BINUNICODE8}
BytesOps == {B_BINBYTES, B_SHORT_BINBYTES, B_BINBYTES8, B_BYTEARRAY8}
PutOps == {B_PUT, B_BINPUT, B_LONG_BINPUT, B_MEMOIZE}
GetOps == {B_GET, B_BINGET, B_LONG_BINGET}
ExtOps == {B_EXT1, B_EXT2, B_EXT4}
BufOps == {B_NEXT_BUFFER, B_READONLY_BUFFER}
IntLikeOps == {B_INT, B_BININT, B_BININT1, B_BININT2, B_LONG, B_LONG1, B_LONG4}

(* operand-kind rule of C03; ops = the ordinary operands (deepest first),
   slice = the cells above the consumed MARK (deepest first)                    *)
KindError(op, ops, slice) ==
    CASE op \in {B_APPEND, B_APPENDS} ->
           IF ops[1] \in {K_List, K_Any} THEN "" ELSE "target is not a list"
      [] op = B_SETITEM ->
           IF ops[1] \in {K_Dict, K_Any} THEN "" ELSE "target is not a dict"
      [] op = B_SETITEMS ->
           IF ops[1] \notin {K_Dict, K_Any} THEN "target is not a dict"
           ELSE IF Len(slice) % 2 # 0 THEN "odd number of key/value operands" ELSE ""
      [] op = B_ADDITEMS ->
           IF ops[1] \in {K_Set, K_Any} THEN "" ELSE "target is not a set"
      [] op = B_DICT ->
           IF Len(slice) % 2 # 0 THEN "odd number of key/value operands" ELSE ""
      [] op = B_STACK_GLOBAL ->
           IF ops[1] \in {K_Str, K_Any} /\ ops[2] \in {K_Str, K_Any} THEN ""
           ELSE "module/name operands are not strings"
      [] op \in {B_REDUCE, B_NEWOBJ} ->
           IF ops[2] \notin {K_Tuple, K_Any} THEN "argument operand is not a tuple"
           ELSE IF ops[1] \notin NonData THEN "callee is a data object" ELSE ""
      [] op = B_NEWOBJ_EX ->
           IF ops[2] \notin {K_Tuple, K_Any} THEN "args operand is not a tuple"
           ELSE IF ops[3] \notin {K_Dict, K_Any} THEN "kwargs operand is not a dict" ELSE ""
      [] op = B_BUILD ->
           IF ops[2] \notin {K_Tuple, K_Dict, K_Any} THEN "state is neither tuple nor dict"
           ELSE IF ops[1] \notin NonData THEN "BUILD target is a data object" ELSE ""
      [] op = B_OBJ ->
           IF slice = <<>> THEN "no callee above the MARK"
           ELSE IF slice[1] \notin NonData THEN "callee above the MARK is a data object" ELSE ""
      [] op = B_DUP ->
           IF ops[1] = K_Mark THEN "DUP duplicates a MARK" ELSE ""
      [] OTHER -> ""

(* kinds pushed; ops/slice as above, got = kind found in the memo for GET *)
PushKinds(op, ops, got) ==
    CASE op = B_MARK -> <<K_Mark>>
      [] op \in ScalarOps -> <<K_Scalar>>
      [] op \in OpenStrOps -> <<K_Any>>
      [] op \in StrOps -> <<K_Str>>
      [] op \in BytesOps -> <<K_Bytes>>
      [] op = B_NEXT_BUFFER -> <<K_Any>>
      [] op = B_READONLY_BUFFER -> <<NonMark(ops[1])>>
      [] op \in {B_EMPTY_LIST, B_LIST} -> <<K_List>>
      [] op \in {B_EMPTY_TUPLE, B_TUPLE, B_TUPLE1, B_TUPLE2, B_TUPLE3} -> <<K_Tuple>>
      [] op \in {B_EMPTY_DICT, B_DICT} -> <<K_Dict>>
      [] op = B_EMPTY_SET -> <<K_Set>>
      [] op = B_FROZENSET -> <<K_FrozenSet>>
      [] op \in {B_APPEND, B_APPENDS, B_SETITEM, B_SETITEMS, B_ADDITEMS} -> <<NonMark(ops[1])>>
      [] op \in {B_GLOBAL, B_STACK_GLOBAL} -> <<K_Callable>>
      [] op \in {B_PERSID, B_BINPERSID} \cup ExtOps -> <<K_Any>>
      [] op \in {B_REDUCE, B_NEWOBJ, B_NEWOBJ_EX, B_INST, B_OBJ} -> <<K_Instance>>
      [] op = B_BUILD -> <<NonMark(ops[1])>>
      [] op = B_DUP -> <<NonMark(ops[1]), NonMark(ops[1])>>
      [] op = B_MEMOIZE -> <<ops[1]>>
      [] op \in GetOps -> <<got>>
      [] OTHER -> <<>>      \* POP, POP_MARK, PUT family, PROTO, FRAME, STOP

MemoHas(memo, k) == k \in DOMAIN memo

(* one step.  Result: [stk, memo, cls, why, kept, key]
   kept = number of bottom cells untouched by the step, key = memo key written (-1) *)
RefStep(st, op, arg) ==
    LET s == st.stk
        n == Len(s)
        usesMark == OpUsesMark(op) \/ (op = B_POP /\ n > 0 /\ s[n] = K_Mark)
        m == IF usesMark THEN TopMark(s) ELSE 0
        base == IF usesMark /\ m > 0 THEN SubSeq(s, 1, m - 1) ELSE s
        slice == IF usesMark /\ m > 0 THEN SubSeq(s, m + 1, n) ELSE <<>>
        need == IF usesMark THEN (IF op = B_POP THEN 0 ELSE OpAfterMark(op)) ELSE OpPops(op)
        nb == Len(base)
        structErr == IF usesMark /\ m = 0 THEN "mark"
                     ELSE IF nb < need THEN "stack" ELSE ""
        take == IF nb < need THEN nb ELSE need
        ops == SubSeq(base, nb - take + 1, nb)
        rest == SubSeq(base, 1, nb - take)
        \* memo discipline (checked on the stack BEFORE the step, as dis does)
        idx == IF op = B_MEMOIZE THEN Cardinality(DOMAIN st.memo) ELSE arg
        memoErr == IF op \in PutOps
                   THEN IF MemoHas(st.memo, idx) THEN "memoPut"
                        ELSE IF n = 0 THEN "memoEmpty"
                        ELSE IF s[n] = K_Mark THEN "memoMark" ELSE ""
                   ELSE IF op \in GetOps /\ ~MemoHas(st.memo, arg) THEN "memoGet" ELSE ""
        got == IF op \in GetOps /\ MemoHas(st.memo, arg) THEN st.memo[arg] ELSE K_Any
        kindErr == IF structErr = "" THEN KindError(op, ops, slice) ELSE ""
        pushes == IF structErr = "" THEN PushKinds(op, ops, got)
                  ELSE [k \in 1..OpPushes(op) |-> K_Any]
        stk2 == rest \o pushes
        stopErr == IF op = B_STOP /\ structErr = "" /\ stk2 # <<>> THEN "stop" ELSE ""
        memo2 == IF op \in PutOps /\ memoErr = ""
                 THEN (idx :> s[n]) @@ st.memo ELSE st.memo
        cls == IF op \in PutOps /\ memoErr # "" THEN memoErr
               ELSE IF structErr # "" THEN structErr
               ELSE IF stopErr # "" THEN stopErr
               ELSE IF memoErr # "" THEN memoErr
               ELSE IF kindErr # "" THEN "kind" ELSE ""
    IN [stk |-> stk2, memo |-> memo2, cls |-> cls,
        why |-> IF cls = "kind" THEN kindErr ELSE cls,
        kept |-> Len(rest),
        key |-> IF op \in PutOps /\ memoErr = "" THEN idx ELSE -1]

PropertyOf(cls) ==
    CASE cls \in {"stack", "mark", "stop"} -> "C01"
      [] cls \in {"memoGet", "memoPut", "memoMark", "memoEmpty"} -> "C02"
      [] cls = "kind" -> "C03"
      [] OTHER -> ""

(* replacing a kind by Any never turns acceptance into rejection (checked in MC_Step) *)
MoreGeneral(a, b) == Len(a) = Len(b) /\ \A k \in 1..Len(a) : a[k] = b[k] \/ (a[k] = K_Any /\ b[k] # K_Mark)
=============================================================================
