------------------------------ MODULE MC_Reach ------------------------------
(* C12 at design level: for every protocol, which opcodes can the body loop ever
   emit?  Breadth-first exploration of GenModel in which only "constructor"
   opcodes may be followed by further body steps (any opcode may be the last one),
   carrying the path of claimed opcodes as a history variable hidden from the
   state fingerprint by VIEW.  The first time an opcode is emitted for a protocol
   its path is printed: a SHORTEST witness that the opcode's guard is satisfiable.
   Run with -workers 1 (TLCGet/TLCSet registers are per worker).                 *)
EXTENDS GenModel

VARIABLE path
rvars == <<vars, path>>

CONSTANT Constructors      \* opcodes that may be followed by further body steps

RInit == Init /\ path = <<>> /\ TLCSet(7, {})

RBody(op) == /\ Body(op)
             /\ (lastPhase = "body" => lastOp \in Constructors)     \* the previous step was a constructor
             /\ path' = Append(path, op)

RNext == \/ ((GenerateCall \/ EmitProto \/ ReserveFrame \/ DrawTarget) /\ path' = path)
         \/ (\E op \in TableSet(mc.P) : RBody(op))

RSpec == RInit /\ [][RNext]_rvars

RView == vars

MC_ReachFlags == {[unsafe |-> FALSE, ext |-> TRUE, buf |-> TRUE]}
MC_P0 == {0}
MC_P5 == {5}
MC_P15 == {1, 5}
MC_T4 == {<<4, 5>>}
MC_T5 == {<<5, 6>>}
MC_T7 == {<<7, 8>>}
MC_Cons0 == {B_MARK, B_NONE, B_GLOBAL, B_TUPLE, B_DICT, B_REDUCE, B_UNICODE, B_PUT}
MC_Cons5 == {B_MARK, B_NONE, B_GLOBAL, B_REDUCE, B_PUT, B_EMPTY_TUPLE, B_EMPTY_DICT, B_EMPTY_LIST,
             B_EMPTY_SET, B_BINUNICODE}

Witness ==
    IF lastOp # -1 /\ <<mc.P, lastOp>> \notin TLCGet(7)
    THEN /\ TLCSet(7, TLCGet(7) \cup {<<mc.P, lastOp>>})
         /\ PrintT(<<"WITNESS", mc.P, lastOp, path, lastPhase>>)
    ELSE TRUE
=============================================================================
