---------------------------- MODULE MC_HeapStep ----------------------------
(* One-step INDUCTIVE check of the heap refinement (C14 for runs of any length):
   the initial states are ALL heaps with at most N cells that satisfy
   Inv == NoCycle /\ Unshared /\ well-formedness, reachable or not; one opcode step
   (any opcode of McOps whose guard holds, any memo key for GET) must lead to a heap that
   satisfies Inv again.  Together with Inv at the empty heap this is the induction that
   makes NoCycle hold after opcode sequences of any length, for every heap that stays
   within N cells before its last step.                                             *)
EXTENDS Heap

CONSTANT N

StepKinds == {K_Mark, K_Scalar, K_List, K_Tuple, K_Dict, K_Callable, K_Instance}

CellsOver(n) ==
    {Cell(k, ks, 0) : k \in StepKinds \ {K_Instance, K_Mark, K_Scalar}, ks \in SUBSET (1..n)}
    \cup {Leaf(K_Mark), Leaf(K_Scalar)}
    \cup {Cell(K_Instance, ks, c) : <<ks, c>> \in {p \in (SUBSET (1..n)) \X (1..n) : p[2] \in p[1] /\ Cardinality(p[1]) <= 2}}

(* injective sequences over 1..n *)
StacksOver(n) == UNION {{s \in [1..len -> 1..n] : \A i, j \in 1..len : i # j => s[i] # s[j]} : len \in 0..n}
MemosOver(n) == {<<>>} \cup {(0 :> c) : c \in 1..n}

WellFormed ==
    /\ \A c \in 1..Len(cells) : cells[c].kids \subseteq 1..Len(cells)
    /\ \A c \in 1..Len(cells) : cells[c].kind \in {K_Mark, K_Scalar} => cells[c].kids = {}

Inv == WellFormed /\ NoCycle /\ Unshared

StepInit ==
    \E n \in 0..N :
       /\ cells \in [1..n -> CellsOver(n)]
       /\ stack \in StacksOver(n)
       /\ memo \in MemosOver(n)
       /\ nops = 0 /\ lastOp = -1
       /\ Inv

StepNext == nops = 0 /\ Next
StepSpec == StepInit /\ [][StepNext]_vars
=============================================================================
