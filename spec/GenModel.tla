------------------------------ MODULE GenModel ------------------------------
(* The generator as a state machine, shaped like the implementation:
   one action per control point of Generator::generate_internal
   (src/generator/core.rs) and cleanup_for_stop (src/generator/stack_ops.rs),
   composed with the reference machine RefPVM that executes every opcode the
   model emits.  Guards and effects come from GenCore (can_emit /
   process_stack_ops).  API life cycle: GenerateCall .. Return may repeat
   (MaxCalls) with an optional Reset in between.

   Emitted bytes are abstracted to (opcode, memo-index argument, abstract length).
   Entropy draws are explicit nondeterminism (\E), so TLC explores every seed and
   every fuzzer byte string at once.                                            *)
EXTENDS GenCore

CONSTANTS Protocols,      \* subset of 0..5
          Ranges,         \* set of <<min_opcodes, max_opcodes>>
          Flags,          \* set of [unsafe, ext, buf] records
          MaxCalls,       \* generate calls per generator
          MaxMemo         \* bound on memo size explored (state constraint)

VARIABLES phase, mc, gstk, gmemo, protoEmitted,   \* generator
          rs, cls, why,                            \* reference machine + class of its last error
          T, nBody, nTail, nOps,                   \* counters of the current call
          outLen, framePos, frameLen,              \* abstract output length, FRAME bookkeeping
          lastOp, lastPhase,                       \* opcode emitted by the last step and where
          nFrames, nProtos, calls, entryClean

vars == <<phase, mc, gstk, gmemo, protoEmitted, rs, cls, why, T, nBody, nTail, nOps,
          outLen, framePos, frameLen, lastOp, lastPhase, nFrames, nProtos, calls, entryClean>>

Configs == {[P |-> p, unsafe |-> f.unsafe, ext |-> f.ext, buf |-> f.buf, min |-> r[1], max |-> r[2]] :
              p \in Protocols, r \in Ranges, f \in Flags}

Init == /\ mc \in Configs
        /\ phase = "idle" /\ gstk = <<>> /\ gmemo = <<>> /\ protoEmitted = FALSE
        /\ rs = RefInit /\ cls = "" /\ why = ""
        /\ T = 0 /\ nBody = 0 /\ nTail = 0 /\ nOps = 0
        /\ outLen = 0 /\ framePos = -1 /\ frameLen = -1
        /\ lastOp = -1 /\ lastPhase = "idle" /\ nFrames = 0 /\ nProtos = 0
        /\ calls = 0 /\ entryClean = TRUE

(* the reference executes what was emitted *)
RefExec(op, arg) ==
    LET r == RefStep(rs, op, arg) IN
    /\ rs' = [stk |-> r.stk, memo |-> r.memo]
    /\ cls' = r.cls /\ why' = r.why

ApplyStack(o) == SubSeq(gstk, 1, Len(gstk) - o.pop) \o o.push
ApplyMemo(o) == IF o.put = <<>> THEN gmemo ELSE (o.put[1] :> o.put[2]) @@ gmemo

(* Generator::generate / generate_from_arbitrary.  The repaired tree resets the
   scratch state at entry; the pinned tree starts from whatever is there (F5). *)
GenerateCall ==
    /\ phase = "idle" /\ calls < MaxCalls
    /\ calls' = calls + 1
    /\ phase' = "header"
    /\ entryClean' = (Pinned => (gstk = <<>> /\ gmemo = <<>> /\ outLen = 0 /\ ~protoEmitted))
    /\ IF Pinned THEN UNCHANGED <<gstk, gmemo, protoEmitted, outLen>>
       ELSE gstk' = <<>> /\ gmemo' = <<>> /\ protoEmitted' = FALSE /\ outLen' = 0
    /\ rs' = RefInit /\ cls' = "" /\ why' = ""
    /\ T' = 0 /\ nBody' = 0 /\ nTail' = 0 /\ nOps' = 0 /\ framePos' = -1 /\ frameLen' = -1
    /\ lastOp' = -1 /\ lastPhase' = "call" /\ nFrames' = 0 /\ nProtos' = 0
    /\ UNCHANGED mc

(* Generator::reset *)
Reset ==
    /\ phase = "idle" /\ calls > 0 /\ (gstk # <<>> \/ outLen # 0 \/ protoEmitted \/ gmemo # <<>>)
    /\ gstk' = <<>> /\ gmemo' = <<>> /\ protoEmitted' = FALSE /\ outLen' = 0
    /\ lastPhase' = "reset" /\ lastOp' = -1
    /\ UNCHANGED <<phase, mc, rs, cls, why, T, nBody, nTail, nOps, framePos, frameLen, nFrames, nProtos, calls, entryClean>>

(* emit_proto *)
EmitProto ==
    /\ phase = "header"
    /\ phase' = "reserve" /\ lastPhase' = "header"
    /\ IF mc.P >= 2 /\ ~protoEmitted
       THEN /\ protoEmitted' = TRUE /\ outLen' = outLen + 2 /\ nOps' = nOps + 1
            /\ lastOp' = B_PROTO /\ nProtos' = nProtos + 1
            /\ RefExec(B_PROTO, mc.P)
       ELSE lastOp' = -1 /\ UNCHANGED <<protoEmitted, outLen, nOps, nProtos, rs, cls, why>>
    /\ UNCHANGED <<mc, gstk, gmemo, T, nBody, nTail, framePos, frameLen, nFrames, calls, entryClean>>

(* use_frame coin and the 9 reserved bytes *)
ReserveFrame ==
    /\ phase = "reserve"
    /\ phase' = "target" /\ lastPhase' = "reserve"
    /\ \E coin \in BOOLEAN :
         IF mc.P >= 4 /\ coin
         THEN framePos' = outLen /\ outLen' = outLen + 9 /\ nOps' = nOps + 1 /\ nFrames' = nFrames + 1
              /\ lastOp' = B_FRAME
         ELSE lastOp' = -1 /\ UNCHANGED <<framePos, outLen, nOps, nFrames>>
    /\ UNCHANGED <<mc, gstk, gmemo, protoEmitted, rs, cls, why, T, nBody, nTail, frameLen, nProtos, calls, entryClean>>

(* target_opcodes = min + choose_index(max - min) *)
DrawTarget ==
    /\ phase = "target"
    /\ phase' = "body" /\ lastPhase' = "target"
    /\ \E t \in (IF mc.max > mc.min THEN mc.min..(mc.max - 1) ELSE {mc.min}) : T' = t
    /\ lastOp' = -1
    /\ UNCHANGED <<mc, gstk, gmemo, protoEmitted, rs, cls, why, nBody, nTail, nOps, outLen, framePos, frameLen, nFrames, nProtos, calls, entryClean>>

(* one iteration of the generation loop: weighted_choice + emit_and_process *)
Body(op) ==
    /\ phase = "body" /\ nBody < T
    /\ Guard(mc, op, gstk, DOMAIN gmemo)
    /\ \E o \in Emissions(mc, op, gstk, gmemo) :
         /\ gstk' = ApplyStack(o) /\ gmemo' = ApplyMemo(o)
         /\ lastOp' = o.op
         /\ RefExec(o.op, o.arg)
    /\ nBody' = nBody + 1 /\ nOps' = nOps + 1 /\ outLen' = outLen + 1
    /\ lastPhase' = "body"
    /\ UNCHANGED <<phase, mc, protoEmitted, T, nTail, framePos, frameLen, nFrames, nProtos, calls, entryClean>>

(* post_process_emission with the type-confusion mutator (unsafe only): the bytes of
   the value-pushing opcode just emitted are replaced by one other value-pushing
   opcode; the simulated stack is NOT re-evaluated.                              *)
ConfusableOps == IntLikeOps \cup {B_FLOAT, B_BINFLOAT, B_STRING, B_UNICODE, B_SHORT_BINUNICODE, B_BINUNICODE,
                 B_BINUNICODE8, B_BINBYTES, B_SHORT_BINBYTES, B_BINBYTES8, B_BINSTRING, B_SHORT_BINSTRING,
                 B_EMPTY_LIST, B_LIST, B_EMPTY_TUPLE, B_TUPLE, B_TUPLE1, B_TUPLE2, B_TUPLE3, B_EMPTY_DICT,
                 B_DICT, B_NONE, B_NEWTRUE, B_NEWFALSE}
Replacements == {B_BININT, B_BINFLOAT, B_SHORT_BINUNICODE, B_SHORT_BINBYTES, B_EMPTY_LIST,
                 B_EMPTY_DICT, B_EMPTY_TUPLE, B_NONE, B_NEWTRUE, B_NEWFALSE}
Rewrite ==
    /\ phase = "body" /\ lastPhase = "body" /\ mc.unsafe /\ lastOp \in ConfusableOps
    /\ \E rep \in Replacements : lastOp' = rep
    /\ \E delta \in {0, 1} : outLen' = outLen + delta
    /\ lastPhase' = "rewrite"
    /\ UNCHANGED <<phase, mc, gstk, gmemo, protoEmitted, rs, cls, why, T, nBody, nTail, nOps, framePos, frameLen, nFrames, nProtos, calls, entryClean>>

EndBody ==
    /\ phase = "body" /\ (nBody = T \/ EnabledSet(mc, gstk, DOMAIN gmemo) = {})
    /\ phase' = "cleanup" /\ lastPhase' = "endbody" /\ lastOp' = -1
    /\ UNCHANGED <<mc, gstk, gmemo, protoEmitted, rs, cls, why, T, nBody, nTail, nOps, outLen, framePos, frameLen, nFrames, nProtos, calls, entryClean>>

(* cleanup_for_stop: close MARKs with TUPLE, collapse, pad with NONE *)
Cleanup ==
    /\ phase = "cleanup"
    /\ LET op == CleanupOp(mc, gstk) IN
       IF op = -1
       THEN /\ phase' = "stop" /\ lastPhase' = "cleanup-done" /\ lastOp' = -1
            /\ UNCHANGED <<gstk, gmemo, rs, cls, why, nTail, nOps, outLen>>
       ELSE /\ \E o \in Emissions(mc, op, gstk, gmemo) :
                 /\ gstk' = ApplyStack(o) /\ gmemo' = ApplyMemo(o)
                 /\ lastOp' = o.op /\ RefExec(o.op, o.arg)
            /\ nTail' = nTail + 1 /\ nOps' = nOps + 1 /\ outLen' = outLen + 1
            /\ lastPhase' = "cleanup"
            /\ UNCHANGED phase
    /\ UNCHANGED <<mc, protoEmitted, T, nBody, framePos, frameLen, nFrames, nProtos, calls, entryClean>>

Stop ==
    /\ phase = "stop"
    /\ phase' = "patch" /\ lastPhase' = "stop"
    /\ lastOp' = B_STOP /\ nOps' = nOps + 1 /\ outLen' = outLen + 1
    /\ RefExec(B_STOP, -1)
    /\ UNCHANGED <<mc, gstk, gmemo, protoEmitted, T, nBody, nTail, framePos, frameLen, nFrames, nProtos, calls, entryClean>>

PatchFrame ==
    /\ phase = "patch"
    /\ phase' = "done" /\ lastPhase' = "patch"
    /\ frameLen' = IF framePos >= 0 THEN outLen - framePos - 9 ELSE -1
    /\ lastOp' = -1
    /\ UNCHANGED <<mc, gstk, gmemo, protoEmitted, rs, cls, why, T, nBody, nTail, nOps, outLen, framePos, nFrames, nProtos, calls, entryClean>>

Return ==
    /\ phase = "done"
    /\ phase' = "idle" /\ lastPhase' = "return" /\ lastOp' = -1
    /\ UNCHANGED <<mc, gstk, gmemo, protoEmitted, rs, cls, why, T, nBody, nTail, nOps, outLen, framePos, frameLen, nFrames, nProtos, calls, entryClean>>

Next == \/ GenerateCall \/ Reset \/ EmitProto \/ ReserveFrame \/ DrawTarget
        \/ (\E op \in TableSet(mc.P) : Body(op))
        \/ Rewrite \/ EndBody \/ Cleanup \/ Stop \/ PatchFrame \/ Return

Spec == Init /\ [][Next]_vars
FairSpec == Spec /\ WF_vars(Next)

---------------------------------------------------------------------------
(* the listed properties, as invariants of the design *)
SafeCfg == ~mc.unsafe
Emitting == lastPhase \in {"header", "body", "cleanup", "stop"}

Inv_C01 == SafeCfg => cls \notin {"stack", "mark", "stop"}
Inv_C02 == SafeCfg => cls \notin {"memoGet", "memoPut", "memoMark", "memoEmpty"}
Inv_C03 == SafeCfg => cls # "kind"

Mirror == /\ Len(gstk) = Len(rs.stk)
          /\ \A k \in 1..Len(gstk) : (gstk[k] = K_Mark <=> rs.stk[k] = K_Mark)
                                      /\ (rs.stk[k] = K_Any \/ rs.stk[k] = gstk[k])
          /\ DOMAIN gmemo = DOMAIN rs.memo
Inv_C17 == (SafeCfg /\ phase \in {"reserve", "target", "body", "cleanup", "stop"} /\ cls \in {"", "kind"}) => Mirror

Inv_C05 == (SafeCfg /\ lastOp # -1) =>
              /\ OpProto(lastOp) <= mc.P
              /\ (lastOp = B_PROTO => lastPhase = "header")
              /\ (mc.P >= 2 => nProtos = 1)
              /\ (mc.P < 2 => nProtos = 0)

Inv_C06 == /\ nFrames <= 1
           /\ (nFrames = 1 => mc.P >= 4 /\ framePos = (IF mc.P >= 2 THEN 2 ELSE 0))
           /\ (lastOp = B_FRAME => lastPhase = "reserve")
           /\ (phase = "done" /\ framePos >= 0 => frameLen = outLen - (framePos + 9))
           /\ (phase = "done" /\ framePos < 0 => frameLen = -1)

Inv_C08 == entryClean

Inv_C10 == /\ (lastOp \in ExtOps => mc.ext)
           /\ (lastOp \in BufOps => mc.buf)

Big == IF mc.min > mc.max THEN mc.min ELSE mc.max
Inv_C11 == /\ (phase \in {"body", "cleanup", "stop", "patch", "done"} =>
                  /\ mc.min <= T /\ T <= Big /\ (mc.max <= mc.min => T = mc.min)
                  /\ nBody <= T /\ nTail <= 2 * T + 1)
           /\ (phase \in {"cleanup", "stop", "patch", "done"} => nBody = T)
           /\ (phase = "done" => nOps >= mc.min + 1 /\ nOps <= 3 * Big + 4)

(* liveness: every call returns *)
Terminates == (phase = "header") ~> (phase = "done")

(* C12: reachability targets; each is EXPECTED to be violated, the counterexample is
   a shortest witness that the opcode's guard is satisfiable                      *)
Never(op) == lastOp # op

MemoBound == Cardinality(DOMAIN gmemo) <= MaxMemo
=============================================================================
