SPECIFICATION Spec
CONSTANTS
  OneByte = 256
  Pinned = FALSE
  DupShares = TRUE
  MaxOps = 6
  MaxCells = 12
INVARIANTS NoCycle Unshared
CHECK_DEADLOCK FALSE
