SPECIFICATION Spec
CONSTANTS
  OneByte = 256
  Pinned = FALSE
  TP = 5
  TExt = TRUE
  TBuf = TRUE
  TUnsafe = FALSE
  TDepth = 3
  TKeys = {}
INVARIANT Row
CHECK_DEADLOCK FALSE
