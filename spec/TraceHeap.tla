------------------------------ MODULE TraceHeap ------------------------------
(* Conformance of the REAL generator's simulated object graph with Heap.tla (C14).
   The harness (pfv heapbfs) walks the real generator breadth-first over the
   aliasing-relevant opcodes and records, with cell identities that are stable
   across one transition,

     t = "step" : the heap before an opcode, the opcode (and memo key), the heap after
     t = "node" : a visited state in which a strong reference cycle is reachable or
                  after which memory stayed allocated when the generator was dropped
                  (and a sample of ordinary states)

   For a step, Heap!Eff is applied to the RECORDED pre-heap and the result must be the
   recorded post-heap up to the names of the cells created by the step (a bijection on
   fresh cells).  Containers that hash their items by value may reference fewer cells
   in the implementation than in the model (HashedOps), never more.  A difference is
   model drift ("D"): the implementation's aliasing differs from what NoCycle was
   model-checked for, and the check then searches deeper from that state.  The verdict
   ("V") is the property itself evaluated on the recorded state: NoCycle on the real
   heap, and nothing left allocated after drop.

   Findings are printed as <<"V"|"D", line, property/tag, reason>>.            *)
EXTENDS Heap, Json, IOUtils, Functions

Rec == ndJsonDeserialize(IOEnv.TRACE)
N == Len(Rec)

VARIABLES i, msgs
tvars == <<i, msgs, cells, stack, memo, nops, lastOp>>

TInit == i = 0 /\ msgs = <<>> /\ Init

V(k, prop, why) == <<"V", k, prop, why>>
D(k, tag, why) == <<"D", k, tag, why>>

SeqSet(s) == {s[x] : x \in 1..Len(s)}
IdsOf(snap) == {c[1] : c \in SeqSet(snap.cells)}
CellAt(snap, id) == CHOOSE c \in SeqSet(snap.cells) : c[1] = id
MemoOf(snap) == [k \in {p[1] : p \in SeqSet(snap.memo)} |-> (CHOOSE p \in SeqSet(snap.memo) : p[1] = k)[2]]
Dense(snap) == IdsOf(snap) = 1..Cardinality(IdsOf(snap))

(* a recorded snapshot with dense ids, as a Heap.tla heap *)
AsHeap(snap) ==
    HeapOf([j \in 1..Cardinality(IdsOf(snap)) |->
               LET c == CellAt(snap, j) IN Cell(Abs(c[2]), SeqSet(c[3]), c[4])],
           snap.stack, MemoOf(snap))

CfgP(p) == [P |-> p, unsafe |-> FALSE, ext |-> FALSE, buf |-> FALSE, min |-> 0, max |-> 0]

(* model heap h2 (ids 1..n are the pre-heap's cells) against the recorded post snapshot *)
Matches(h2, n, post, hashed) ==
    LET liveM == LiveOf(h2)
        postIds == IdsOf(post)
        freshM == {x \in liveM : x > n}
        freshI == {x \in postIds : x > n}
        pmemo == MemoOf(post)
    IN /\ Cardinality(freshM) = Cardinality(freshI)
       /\ Len(h2.stack) = Len(post.stack)
       /\ DOMAIN h2.memo = DOMAIN pmemo
       /\ \E f \in Bijection(freshM, freshI) :
            LET F(x) == IF x <= n THEN x ELSE f[x] IN
            /\ \A k \in 1..Len(h2.stack) : F(h2.stack[k]) = post.stack[k]
            /\ \A k \in DOMAIN pmemo : F(h2.memo[k]) = pmemo[k]
            /\ \A y \in postIds : \E x \in liveM : F(x) = y
            /\ hashed \/ \A x \in liveM : F(x) \in postIds
            /\ \A x \in liveM : F(x) \in postIds =>
                 LET pc == CellAt(post, F(x))
                     mk == {F(y) : y \in h2.cells[x].kids}
                     ik == SeqSet(pc[3])
                 IN /\ h2.cells[x].kind = Abs(pc[2])
                    /\ IF hashed THEN ik \subseteq mk ELSE ik = mk
                    /\ IF h2.cells[x].cal = 0 THEN pc[4] = 0 ELSE pc[4] = F(h2.cells[x].cal)

StepRec(k, e) ==
    IF ~Dense(e.pre) THEN msgs' = <<D(k, "hook", "cell ids of the recorded pre-heap are not dense")>> /\ UNCHANGED <<cells, stack, memo>>
    ELSE
    LET pre == AsHeap(e.pre)
        n == Len(pre.cells)
        known == e.op \in HeapOps
        guard == Guard(CfgP(e.P), e.op, KindsOf(pre), DOMAIN pre.memo)
        keyok == e.op \notin GetOps \/ e.key \in DOMAIN pre.memo
        h2 == IF known /\ guard /\ keyok THEN Eff(pre, e.op, e.key) ELSE pre
    IN /\ cells' = h2.cells /\ stack' = h2.stack /\ memo' = h2.memo
       /\ msgs' = (IF ~known THEN <<D(k, "heap-uncovered", <<"opcode without a heap effect in Heap.tla", e.op>>)>>
                   ELSE IF ~guard THEN <<D(k, "heap-guard", <<"implementation emitted an opcode the model's guard forbids here", e.op>>)>>
                   ELSE IF ~keyok THEN <<D(k, "heap-key", <<"memo read of a key the recorded memo does not hold", e.op, e.key>>)>>
                   ELSE IF ~Matches(h2, n, e.post, e.op \in HashedOps)
                        THEN <<D(k, "heap-effect", <<"heap after the opcode differs from Heap!Eff applied to the heap before it", e.op>>)>>
                   ELSE <<>>)
               \o (IF e.cycle THEN <<V(k, "C14", <<"strong reference cycle reachable from the roots after opcode", e.op>>)>> ELSE <<>>)

NodeRec(k, e) ==
    /\ UNCHANGED <<cells, stack, memo>>
    /\ LET h == AsHeap(e.heap)
           cyc == Dense(e.heap) /\ CycleIn(h.cells, 1..Len(h.cells))
       IN msgs' = (IF cyc \/ e.cycle
                   THEN <<V(k, "C14", <<"Heap!NoCycle does not hold on the generator's object graph; bytes still allocated after drop", e.leaked>>)>> ELSE <<>>)
               \o (IF e.leaked # 0 /\ ~(cyc \/ e.cycle)
                   THEN <<V(k, "C14", <<"heap not released after drop, no reference cycle among the roots' cells", e.leaked>>)>> ELSE <<>>)
               \o (IF cyc # e.cycle THEN <<D(k, "hook", "cycle flag of the hook differs from Heap!CycleIn on the recorded graph")>> ELSE <<>>)

TStep ==
    /\ i < N
    /\ LET k == i + 1
           e == Rec[k]
       IN /\ i' = k
          /\ UNCHANGED <<nops, lastOp>>
          /\ CASE e.t = "step" -> StepRec(k, e)
               [] e.t = "node" -> NodeRec(k, e)
               [] OTHER -> msgs' = <<D(k, "record", "unknown record type")>> /\ UNCHANGED <<cells, stack, memo>>

TSpec == TInit /\ [][TStep]_tvars

Report == /\ (msgs = <<>> \/ PrintT(<<"MSGS", msgs>>))
          /\ (i < N \/ PrintT(<<"DONE", N, N>>))
=============================================================================
