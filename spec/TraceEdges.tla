----------------------------- MODULE TraceEdges -----------------------------
(* Validation of the REAL generator's one-step behaviour, enumerated systematically
   through the forced-choice hook (breadth-first over its decision tree, every
   enabled opcode forced in every visited projected state).

   One input line = one edge: the path that reaches the source state (claimed opcode
   and emitted bytes of each step), the forced opcode, the bytes it emitted, the
   projected generator state before/after, the enabled set.  One TLC step per edge:
   the reference machine replays the path bytes, then executes the new opcode as
   decoded by the Lexer.  Verdicts: C01/C02/C03 (reference accepts), C17 (claimed
   opcode = decoded opcode spanning exactly the emitted bytes, mirror relation after
   the step), C05/C10 (table / flags).  Conformance with GenCore (enabled set =
   guards, state change = effect) is reported as drift.                           *)
EXTENDS Naturals, Integers, Sequences, FiniteSets, TLC, Json, IOUtils, Lexer, RefPVM, GenCore

Rec == ndJsonDeserialize(IOEnv.TRACE)
N == Len(Rec)

VARIABLES i, rp, lastp, lexd, st, apre, apost, msgs
vars == <<i, rp, lastp, lexd, st, apre, apost, msgs>>
(* staged through primed variables (TLC re-evaluates LET definitions at every use):
   rp = reference state after the path (kept while consecutive edges share their path),
   apre / apost = abstracted generator state before / after the edge                  *)

StInit == [stk |-> <<>>, memo |-> <<>>, cls |-> "", why |-> "", kept |-> 0, key |-> -1]
LexInit == [op |-> -1, known |-> FALSE, nxt |-> 0, ok |-> FALSE, why |-> "", arg |-> -1]

Init == /\ i = 0 /\ rp = RefInit /\ lastp = <<-1>> /\ lexd = LexInit /\ st = StInit
        /\ apre = [stk |-> <<>>, memo |-> <<>>] /\ apost = [stk |-> <<>>, memo |-> <<>>] /\ msgs = <<>>

(* reference state after executing the bytes of the path steps *)
RECURSIVE Fold(_, _, _)
Fold(path, k, r) ==
    IF k > Len(path) THEN r
    ELSE LET lx == LexAt(path[k][2], 1)
             s == RefStep(r, lx.op, lx.arg)
         IN IF path[k][2] = <<>> \/ ~lx.known THEN Fold(path, k + 1, r)
            ELSE Fold(path, k + 1, [stk |-> s.stk, memo |-> s.memo])

(* memo entries arrive sorted by key; the usual case (keys 0..n-1) is built in linear time *)
AbsState(p) ==
    LET n == Len(p.memo)
        dense == \A j \in 1..n : p.memo[j][1] = j - 1
    IN [stk |-> AbsSeq(p.stk),
        memo |-> IF n = 0 THEN <<>>
                 ELSE IF dense THEN [k \in 0..(n - 1) |-> Abs(p.memo[k + 1][2])]
                 ELSE [k \in {p.memo[j][1] : j \in 1..n} |->
                          Abs((CHOOSE d \in {p.memo[j] : j \in 1..n} : d[1] = k)[2])]]

MirrorFull(g, r) ==
    /\ Len(g.stk) = Len(r.stk)
    /\ \A k \in 1..Len(g.stk) : (g.stk[k] = K_Mark <=> r.stk[k] = K_Mark) /\ (r.stk[k] = K_Any \/ r.stk[k] = g.stk[k])
    /\ DOMAIN g.memo = DOMAIN r.memo
    /\ \A k \in DOMAIN g.memo : r.memo[k] = K_Any \/ r.memo[k] = g.memo[k]

BitOf(mask, j) == (mask[((j - 1) \div 24) + 1] \div (2 ^ ((j - 1) % 24))) % 2 = 1
MaskSet(mask) == {OpBytes[j] : j \in {x \in 1..Len(OpBytes) : BitOf(mask, x)}}

V(k, prop, why) == <<"V", k, prop, why>>
D(k, tag, why) == <<"D", k, tag, why>>

Step ==
    /\ i < N
    /\ LET k == i + 1
           e == Rec[k]
           c == e.cfg
           mc == ModelCfg(c)
           safe == c.unsafe = 0
       IN
       /\ i' = k
       /\ lastp' = e.path
       /\ rp' = IF e.path = lastp THEN rp ELSE Fold(e.path, 1, RefInit)
       /\ apre' = AbsState(e.pre)
       /\ apost' = AbsState(e.post)
       /\ lexd' = LexAt(e.bytes, 1)
       /\ st' = IF lexd'.known THEN RefStep(rp', lexd'.op, lexd'.arg) ELSE StInit
       /\ LET pre == apre'
              post == apost'
              putDelta == {<<x, post.memo[x]>> : x \in {y \in DOMAIN post.memo : y \notin DOMAIN pre.memo \/ pre.memo[y] # post.memo[y]}}
              en == EnabledSet(mc, pre.stk, DOMAIN pre.memo)
              tail == "tail" \in DOMAIN e      \* collapse-phase / STOP opcode following a forced emission
          IN msgs' =
            (IF e.err # "" THEN <<V(k, "C09", "forced emission failed: " \o e.err)>> ELSE <<>>)
         \o (IF e.err = "" /\ e.bytes = <<>> THEN <<V(k, "C11", "step emitted no opcode")>> ELSE <<>>)
         \o (IF e.bytes # <<>> /\ ~(lexd'.known /\ lexd'.ok) THEN <<V(k, "C04", lexd'.why)>> ELSE <<>>)
         \o (IF e.bytes # <<>> /\ lexd'.known /\ lexd'.ok /\ lexd'.nxt # Len(e.bytes) + 1
             THEN <<V(k, "C11", "step does not span exactly one opcode")>> ELSE <<>>)
         \o (IF lexd'.known /\ lexd'.op \in ExtOps /\ c.ext = 0 THEN <<V(k, "C10", "EXT opcode although not enabled")>> ELSE <<>>)
         \o (IF lexd'.known /\ lexd'.op \in BufOps /\ c.buf = 0 THEN <<V(k, "C10", "buffer opcode although not enabled")>> ELSE <<>>)
         \o (IF safe /\ lexd'.known /\ OpProto(lexd'.op) > c.P THEN <<V(k, "C05", "opcode of a later protocol")>> ELSE <<>>)
         \o (IF ~tail /\ safe /\ lexd'.known /\ lexd'.op \in {B_PROTO, B_FRAME, B_STOP} THEN <<V(k, "C05", "PROTO/FRAME/STOP chosen as a body opcode")>> ELSE <<>>)
         \o (IF safe /\ c.P = 0 /\ \E j \in 1..Len(e.bytes) : e.bytes[j] > 127 THEN <<V(k, "C05", "protocol 0 output is not 7-bit ASCII")>> ELSE <<>>)
         \o (IF safe /\ lexd'.known /\ lexd'.ok /\ st'.cls # "" THEN <<V(k, PropertyOf(st'.cls), st'.why)>> ELSE <<>>)
         \o (IF safe /\ ~MirrorFull(pre, rp') THEN <<D(k, "path", "source state does not mirror the reference (reported on an earlier edge)")>>
             ELSE IF safe /\ lexd'.known /\ lexd'.ok THEN
                  (IF lexd'.op \notin Family(e.op) THEN <<V(k, "C17", "claimed opcode differs from the emitted bytes")>> ELSE <<>>)
               \o (IF st'.cls \in {"", "kind"} /\ lexd'.op # B_STOP /\ ~MirrorFull(post, st')
                   THEN <<V(k, "C17", "simulated state differs from the reference state")>> ELSE <<>>)
             ELSE <<>>)
         \o (IF ~tail /\ MaskSet(e.en) # en
             THEN <<D(k, "enabled", <<"impl-only", MaskSet(e.en) \ en, "model-only", en \ MaskSet(e.en)>>)>> ELSE <<>>)
         \o (IF ~tail /\ safe /\ e.err = ""
                /\ ~\E o \in Emissions(mc, e.op, pre.stk, pre.memo) :
                       /\ Len(post.stk) = Len(pre.stk) - o.pop + Len(o.push)
                       /\ SubSeq(post.stk, 1, Len(pre.stk) - o.pop) = SubSeq(pre.stk, 1, Len(pre.stk) - o.pop)
                       /\ SubSeq(post.stk, Len(pre.stk) - o.pop + 1, Len(post.stk)) = o.push
                       /\ putDelta = (IF o.put = <<>> THEN {} ELSE {<<o.put[1], o.put[2]>>})
             THEN <<D(k, "effect", "state change differs from GenModel effect")>> ELSE <<>>)

Next == Step
Spec == Init /\ [][Next]_vars

Report == /\ (msgs = <<>> \/ PrintT(<<"MSGS", msgs>>))
          /\ (i < N \/ PrintT(<<"DONE", N, N>>))
=============================================================================
