------------------------------ MODULE MC_Step ------------------------------
(* One-step INDUCTIVE check of the generator's guards and effects against the
   reference machine.  Init = EVERY pair (generator stack, reference stack) related
   by the mirror relation of C17, up to MaxDepth cells (reachable or not), with a
   choice of memo contents; Next = one body emission, one cleanup emission, or the
   final STOP.  Invariants on the successor: the reference accepted the opcode
   (C01, C02, C03) and the mirror relation holds again (C17).  Because it starts
   from every related pair, the result covers runs of ANY length that stay within
   the depth bound.                                                              *)
EXTENDS GenCore

CONSTANTS MaxDepth, StepConfigs, MemoShapes

VARIABLES mc, gstk, gmemo, rs, lastOp, cls, why, stepped, how
vars == <<mc, gstk, gmemo, rs, lastOp, cls, why, stepped, how>>

(* related (generator kind, reference kind) pairs for one cell *)
CellPairs == {<<g, r>> \in GenKinds \X RefKinds :
                (g = K_Mark <=> r = K_Mark) /\ (r = K_Any \/ r = g)}
ValuePairs == {p \in CellPairs : p[1] # K_Mark}

(* memo contents: "empty", "one" (key 0), "full" (keys 0..OneByte-1, one value pair) *)
MemoOf(shape, p, ix) ==
    CASE shape = "empty" -> <<>>
      [] shape = "one" -> (0 :> p[ix])
      [] OTHER -> [k \in 0..(OneByte - 1) |-> p[ix]]

Init ==
    /\ mc \in StepConfigs
    /\ \E d \in 0..MaxDepth : \E ps \in [1..d -> CellPairs] :
          /\ gstk = [k \in 1..d |-> ps[k][1]]
          /\ rs = [stk |-> [k \in 1..d |-> ps[k][2]], memo |-> <<>>]
    /\ gmemo = <<>>
    /\ lastOp = -1 /\ cls = "" /\ why = "" /\ stepped = FALSE /\ how = "init"

(* memo shapes are chosen in a separate first step so that Init stays enumerable *)
ChooseMemo ==
    /\ ~stepped /\ how = "init"
    /\ \E shape \in MemoShapes : \E p \in (IF shape = "empty" THEN {<<K_Scalar, K_Scalar>>} ELSE ValuePairs) :
          /\ gmemo' = MemoOf(shape, p, 1)
          /\ rs' = [rs EXCEPT !.memo = MemoOf(shape, p, 2)]
    /\ how' = "memo"
    /\ UNCHANGED <<mc, gstk, lastOp, cls, why, stepped>>

RefExec(op, arg) ==
    LET r == RefStep(rs, op, arg) IN
    /\ rs' = [stk |-> r.stk, memo |-> r.memo]
    /\ cls' = r.cls /\ why' = r.why

Apply(o) ==
    /\ gstk' = SubSeq(gstk, 1, Len(gstk) - o.pop) \o o.push
    /\ gmemo' = IF o.put = <<>> THEN gmemo ELSE (o.put[1] :> o.put[2]) @@ gmemo
    /\ lastOp' = o.op
    /\ RefExec(o.op, o.arg)

BodyStep(op) ==
    /\ ~stepped /\ how = "memo"
    /\ Guard(mc, op, gstk, DOMAIN gmemo)
    /\ \E o \in Emissions(mc, op, gstk, gmemo) : Apply(o)
    /\ stepped' = TRUE /\ how' = "body"
    /\ UNCHANGED mc

CleanupStep ==
    /\ ~stepped /\ how = "memo"
    /\ LET op == CleanupOp(mc, gstk) IN
       IF op = -1
       THEN /\ lastOp' = B_STOP /\ RefExec(B_STOP, -1) /\ how' = "stop"
            /\ UNCHANGED <<gstk, gmemo>>
       ELSE /\ \E o \in Emissions(mc, op, gstk, gmemo) : Apply(o)
            /\ how' = "cleanup"
    /\ stepped' = TRUE
    /\ UNCHANGED mc

Next == ChooseMemo \/ (\E op \in TableSet(mc.P) : BodyStep(op)) \/ CleanupStep
Spec == Init /\ [][Next]_vars

Mirror == /\ Len(gstk) = Len(rs.stk)
          /\ \A k \in 1..Len(gstk) : (gstk[k] = K_Mark <=> rs.stk[k] = K_Mark)
                                      /\ (rs.stk[k] = K_Any \/ rs.stk[k] = gstk[k])
          /\ DOMAIN gmemo = DOMAIN rs.memo
          /\ \A k \in DOMAIN gmemo : rs.memo[k] = K_Any \/ rs.memo[k] = gmemo[k]

Inv_C01 == cls \notin {"stack", "mark", "stop"}
Inv_C02 == cls \notin {"memoGet", "memoPut", "memoMark", "memoEmpty"}
Inv_C03 == cls # "kind"
Inv_C17 == (how # "stop" /\ cls \in {"", "kind"}) => Mirror
Inv_C05 == lastOp # -1 => OpProto(lastOp) <= mc.P
(* the cleanup makes progress: MARK count, then stack length, strictly decrease *)
Inv_Progress == how = "cleanup" => Len(gstk) >= 1
=============================================================================
