SPECIFICATION RSpec
CONSTANTS
  OneByte = 256
  Pinned = FALSE
  Protocols <- MC_P0
  Ranges <- MC_T7
  Flags <- MC_ReachFlags
  Constructors <- MC_Cons0
  MaxCalls = 1
  MaxMemo = 2
VIEW RView
INVARIANT Witness
CONSTRAINT MemoBound
CHECK_DEADLOCK FALSE
