----------------------------- MODULE MC_StepDefs -----------------------------
EXTENDS MC_Step
Cfg(p, e, b) == [P |-> p, unsafe |-> FALSE, ext |-> e, buf |-> b, min |-> 0, max |-> 0]
MC_StepConfigs == {Cfg(5, TRUE, TRUE), Cfg(1, FALSE, FALSE), Cfg(0, FALSE, FALSE)}
MC_StepConfigsAll == {Cfg(p, e, b) : p \in 0..5, e \in BOOLEAN, b \in BOOLEAN}
MC_ShapesEmpty == {"empty"}
MC_ShapesAll == {"empty", "one", "full"}
=============================================================================
