SPECIFICATION Spec
CONSTANTS
  PinnedGate = FALSE
  MaxList = 3
INVARIANT Inv_C15
CHECK_DEADLOCK FALSE
