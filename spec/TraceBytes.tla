------------------------------ MODULE TraceBytes ------------------------------
(* Byte-level validation of returned pickles WITHOUT hook events: one TLC step per
   decoded opcode, the whole byte string is decoded by Lexer and executed by the
   reference machine.  Cheaper than TraceGen (no generator-side state), so it covers
   many more generations, and, with the depth-only reference machine (records with
   deep = 1), programs of tens of thousands of opcodes whose stacks are thousands of
   cells deep.  Judged: C01-C03 and C05 (safe runs), C04, C06, C10, the total-count
   bound of C11, C09 (result Ok, non-empty).

   Depth-only machine (deep = 1): the stack discipline of pickletools.dis depends only
   on the stack length and the positions of MARK cells, so the reference state is
   [n, marks] (marks = positions of MARK cells, bottom first) plus the memo's KEY SET in
   constant space: keys 0..mn-1 are defined (the dense prefix every PUT-family emitter is
   supposed to extend) and `extra` holds defined keys beyond it.  Kinds are not tracked,
   hence C01, C02 and the lexical properties are judged on such records, C03 is not. *)
EXTENDS Naturals, Integers, Sequences, FiniteSets, TLC, Json, IOUtils, Lexer, RefPVM

Rec == ndJsonDeserialize(IOEnv.TRACE)
N == Len(Rec)

VARIABLES i,      \* current record (N+1 when finished)
          p,      \* position of the next opcode byte
          lexd,   \* staged Lexer result of the opcode just consumed
          st,     \* staged RefStep result (full machine)
          dm,     \* depth-only machine [n, marks, cls]
          acc,    \* [n, frames, stops, broken, stuck]
          msgs
vars == <<i, p, lexd, st, dm, acc, msgs>>

StInit == [stk |-> <<>>, memo |-> <<>>, cls |-> "", why |-> "", kept |-> 0, key |-> -1]
LexInit == [op |-> -1, known |-> FALSE, nxt |-> 0, ok |-> FALSE, why |-> "", arg |-> -1]
DmInit == [n |-> 0, marks |-> <<>>, cls |-> "", mn |-> 0, extra |-> {}]
AccInit == [n |-> 0, frames |-> 0, stops |-> 0, broken |-> FALSE, stuck |-> FALSE]

Init == i = 1 /\ p = 1 /\ lexd = LexInit /\ st = StInit /\ dm = DmInit /\ acc = AccInit /\ msgs = <<>>

V(k, prop, why) == <<"V", Rec[k].id, acc.n + 1, prop, why>>

RECURSIVE Absorb(_, _)
Absorb(mn, extra) == IF mn \in extra THEN Absorb(mn + 1, extra \ {mn}) ELSE [mn |-> mn, extra |-> extra]

(* pickletools.dis on [n, marks] and the memo key set *)
DepthStep(d, op, arg) ==
    LET nm == Len(d.marks)
        has(k) == (k >= 0 /\ k < d.mn) \/ k \in d.extra
        idx == IF op = B_MEMOIZE THEN d.mn + Cardinality(d.extra) ELSE arg
        memoErr == IF op \in PutOps
                   THEN IF has(idx) THEN "memoPut"
                        ELSE IF d.n = 0 THEN "memoEmpty"
                        ELSE IF nm > 0 /\ d.marks[nm] = d.n THEN "memoMark" ELSE ""
                   ELSE IF op \in GetOps /\ ~has(arg) THEN "memoGet" ELSE ""
        memo2 == IF op \in PutOps /\ ~has(idx)
                 THEN (IF idx = d.mn THEN Absorb(d.mn + 1, d.extra) ELSE [mn |-> d.mn, extra |-> d.extra \cup {idx}])
                 ELSE [mn |-> d.mn, extra |-> d.extra]
        topIsMark == nm > 0 /\ d.marks[nm] = d.n
        usesMark == OpUsesMark(op) \/ (op = B_POP /\ topIsMark)
        base == IF usesMark /\ nm > 0 THEN d.marks[nm] - 1 ELSE d.n
        marks1 == IF usesMark /\ nm > 0 THEN SubSeq(d.marks, 1, nm - 1) ELSE d.marks
        need == IF usesMark THEN (IF op = B_POP THEN 0 ELSE OpAfterMark(op)) ELSE OpPops(op)
        err == IF usesMark /\ nm = 0 THEN "mark" ELSE IF base < need THEN "stack" ELSE ""
        rest == IF base < need THEN 0 ELSE base - need
        \* ordinary pops may remove MARK cells that are used as plain operands
        marks2 == SelectSeq(marks1, LAMBDA m : m <= rest)
        n2 == rest + OpPushes(op)
        marks3 == IF op = B_MARK THEN Append(marks2, n2) ELSE marks2
    IN [n |-> n2, marks |-> marks3, mn |-> memo2.mn, extra |-> memo2.extra,
        cls |-> IF err # "" THEN err ELSE IF op = B_STOP /\ n2 # 0 THEN "stop" ELSE memoErr]

Safe(c) == c.unsafe = 0 /\ c.mutUnsafe = 0

OpStep ==
    /\ i <= N
    /\ Rec[i].res = 1 /\ p <= Len(Rec[i].bytes) /\ ~acc.stuck /\ acc.stops = 0
    /\ LET e == Rec[i]
           c == e.cfg
           b == e.bytes
           safe == Safe(c)
           deep == e.deep = 1
       IN
       /\ lexd' = LexAt(b, p)
       /\ st' = IF lexd'.known /\ lexd'.ok /\ ~deep /\ ~acc.broken THEN RefStep(st, lexd'.op, lexd'.arg) ELSE st
       /\ dm' = IF lexd'.known /\ lexd'.ok /\ deep /\ ~acc.broken THEN DepthStep(dm, lexd'.op, lexd'.arg) ELSE dm
       /\ p' = lexd'.nxt
       /\ LET cls == IF deep THEN dm'.cls ELSE st'.cls
              why == IF deep THEN dm'.cls ELSE st'.why
              lx == lexd'
          IN
          /\ acc' = [acc EXCEPT !.n = @ + 1,
                                !.stuck = ~(lx.known /\ lx.ok),
                                !.frames = @ + (IF lx.known /\ lx.op = B_FRAME THEN 1 ELSE 0),
                                !.stops = @ + (IF lx.known /\ lx.ok /\ lx.op = B_STOP THEN 1 ELSE 0),
                                !.broken = acc.broken \/ ~safe \/ ~(lx.known /\ lx.ok) \/ cls \notin {"", "kind"}]
          /\ msgs' =
               (IF ~lx.known THEN <<V(i, "C04", "unknown opcode byte")>> ELSE <<>>)
            \o (IF lx.known /\ ~lx.ok THEN <<V(i, "C04", lx.why)>> ELSE <<>>)
            \o (IF lx.known /\ lx.ok /\ safe /\ ~acc.broken /\ cls # "" /\ (~deep \/ cls \in {"stack", "mark", "stop", "memoGet", "memoPut", "memoMark", "memoEmpty"})
                THEN <<V(i, PropertyOf(cls), why)>> ELSE <<>>)
            \o (IF lx.known /\ lx.op \in ExtOps /\ c.ext = 0 THEN <<V(i, "C10", "EXT opcode although not enabled")>> ELSE <<>>)
            \o (IF lx.known /\ lx.op \in BufOps /\ c.buf = 0 THEN <<V(i, "C10", "buffer opcode although not enabled")>> ELSE <<>>)
            \o (IF lx.known /\ safe /\ OpProto(lx.op) > c.P THEN <<V(i, "C05", "opcode of a later protocol")>> ELSE <<>>)
            \o (IF lx.known /\ safe /\ lx.op = B_PROTO /\ (acc.n # 0 \/ c.P < 2 \/ lx.arg # c.P)
                THEN <<V(i, "C05", "PROTO is not the leading PROTO <P>")>> ELSE <<>>)
            \o (IF lx.known /\ lx.op = B_FRAME /\ (c.P < 4 \/ acc.n # 1 \/ acc.frames # 0)
                THEN <<V(i, "C06", "FRAME not unique / not directly after PROTO / protocol < 4")>> ELSE <<>>)
            \* FRAME is never a body choice (Guard) nor a collapse opcode: beyond the header it is an opcode C11 does not allow
            \o (IF lx.known /\ lx.op = B_FRAME /\ acc.n > 1
                THEN <<V(i, "C11", "FRAME opcode beyond the header: neither a body choice, nor collapse tail, nor STOP")>> ELSE <<>>)
            \o (IF lx.known /\ lx.ok /\ lx.op = B_FRAME /\ lx.arg # Len(b) - (lx.nxt - 1)
                THEN <<V(i, "C06", "FRAME length differs from the number of bytes that follow")>> ELSE <<>>)
            \o (IF lx.known /\ lx.ok /\ lx.op = B_STOP /\ lx.nxt # Len(b) + 1 THEN <<V(i, "C04", "bytes after STOP")>> ELSE <<>>)
    /\ UNCHANGED i

EndRec ==
    /\ i <= N
    /\ (Rec[i].res # 1 \/ p > Len(Rec[i].bytes) \/ acc.stuck \/ acc.stops > 0)
    /\ LET e == Rec[i]
           c == e.cfg
           b == e.bytes
           big == IF c.min > c.max THEN c.min ELSE c.max
       IN msgs' =
          IF e.res # 1 THEN <<V(i, "C09", "generation did not return Ok: " \o e.msg)>>
          ELSE IF b = <<>> THEN <<V(i, "C09", "empty result")>>
          ELSE (IF ~acc.stuck /\ acc.stops # 1 THEN <<V(i, "C04", "no STOP at the end")>> ELSE <<>>)
            \o (IF Safe(c) /\ c.P >= 2 /\ b[1] # B_PROTO THEN <<V(i, "C05", "no PROTO header")>> ELSE <<>>)
            \o (IF Safe(c) /\ c.P = 0 /\ \E j \in 1..Len(b) : b[j] > 127 THEN <<V(i, "C05", "protocol 0 output is not 7-bit ASCII")>> ELSE <<>>)
            \o (IF ~acc.stuck /\ (acc.n < c.min + 1 \/ acc.n > 3 * big + 4) THEN <<V(i, "C11", "opcode count outside [min+1, 3*max+4]")>> ELSE <<>>)
    /\ i' = i + 1 /\ p' = 1 /\ lexd' = LexInit /\ st' = StInit /\ dm' = DmInit /\ acc' = AccInit

Next == OpStep \/ EndRec
Spec == Init /\ [][Next]_vars
Report == /\ (msgs = <<>> \/ PrintT(<<"MSGS", msgs>>))
          /\ (i <= N \/ PrintT(<<"DONE", N, N>>))
=============================================================================
