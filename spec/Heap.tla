-------------------------------- MODULE Heap --------------------------------
(* Refinement of the generator's simulated stack with CELL IDENTITIES and strong
   references, to decide C14 at design level: the simulated objects are
   Rc<RefCell<StackObject>> cells; containers own strong references to their items;
   reference counting frees a cell only when nothing points to it, so a strong
   CYCLE is never freed.  NoCycle is therefore equivalent to "everything is released
   when the roots (stack, memo) are dropped".

   DupShares = TRUE  : pinned tree, DUP pushes a second handle to the SAME cell
   DupShares = FALSE : repaired tree, DUP pushes a shallow copy (as GET / MEMOIZE / BUILD do)

   Eff(h, op, key) is the heap effect of one opcode as a FUNCTION of the heap
   [cells, stack, memo], transcribed from src/generator/stack_ops.rs.  The model
   checker runs it from the empty heap over every opcode sequence (MC_Heap*.cfg);
   TraceHeap.tla applies it to heap states recorded from the real generator and
   compares the result with the heap the real generator reached.

   A cell is [kind, kids, cal]: kids = set of cells strongly referenced, cal = the
   callable cell of an instance (0 otherwise; an instance references {cal, args}). *)
EXTENDS GenCore

CONSTANTS DupShares, MaxOps, MaxCells

VARIABLES cells,   \* sequence of cells, cell id = index
          stack,   \* sequence of cell ids
          memo,    \* key -> cell id
          nops, lastOp
vars == <<cells, stack, memo, nops, lastOp>>

PlainPutOps == {B_PUT, B_BINPUT, B_LONG_BINPUT}     \* GetOps comes from RefPVM
(* containers whose items are hashed by VALUE in the implementation: structurally equal
   items collapse, so the implementation may reference FEWER cells than this model *)
HashedOps == {B_DICT, B_SETITEM, B_SETITEMS, B_ADDITEMS, B_FROZENSET}

HeapOps == {B_NONE, B_MARK, B_GLOBAL, B_STACK_GLOBAL, B_EXT1, B_EXT2, B_EXT4, B_BINPERSID,
            B_EMPTY_LIST, B_EMPTY_DICT, B_EMPTY_TUPLE, B_EMPTY_SET,
            B_LIST, B_TUPLE, B_DICT, B_FROZENSET, B_TUPLE1, B_TUPLE2, B_TUPLE3,
            B_APPEND, B_APPENDS, B_SETITEM, B_SETITEMS, B_ADDITEMS,
            B_REDUCE, B_NEWOBJ, B_NEWOBJ_EX, B_INST, B_OBJ, B_BUILD,
            B_DUP, B_POP, B_POP_MARK, B_MEMOIZE} \cup PlainPutOps \cup GetOps

(* the subset explored by the model checker; a configuration may substitute a smaller one *)
McOps == {B_EMPTY_LIST, B_EMPTY_DICT, B_NONE, B_GLOBAL, B_MARK, B_DUP, B_POP, B_TUPLE1, B_TUPLE, B_LIST,
          B_APPEND, B_APPENDS, B_SETITEM, B_REDUCE, B_BUILD, B_PUT, B_GET, B_MEMOIZE, B_EMPTY_TUPLE,
          B_INST, B_OBJ}

Cfg == [P |-> 5, unsafe |-> FALSE, ext |-> FALSE, buf |-> FALSE, min |-> 0, max |-> 0]

Cell(kind, kids, cal) == [kind |-> kind, kids |-> kids, cal |-> cal]
Leaf(kind) == Cell(kind, {}, 0)
HeapOf(cs, st, mm) == [cells |-> cs, stack |-> st, memo |-> mm]
EmptyHeap == HeapOf(<<>>, <<>>, <<>>)
KindsOf(h) == [k \in 1..Len(h.stack) |-> h.cells[h.stack[k]].kind]

Eff(h, op, key) ==
    LET C == h.cells
        S == h.stack
        M == h.memo
        n == Len(C)
        L == Len(S)
        m == TopMark(KindsOf(h))
        top(d) == S[L - d]
        from(a) == {S[k] : k \in a..L}
        (* push the LAST of the new cells, keeping the first `keep` slots *)
        Push(new, keep) == HeapOf(C \o new, Append(SubSeq(S, 1, keep), n + Len(new)), M)
        AddKids(t, ks, keep) == HeapOf([C EXCEPT ![t].kids = @ \cup ks], SubSeq(S, 1, keep), M)
        (* GLOBAL wraps the global in a Callable cell; REDUCE / NEWOBJ unwrap it *)
        Inner(c) == IF C[c].kind = K_Callable /\ C[c].kids # {} THEN CHOOSE x \in C[c].kids : TRUE ELSE c
        Wrapped == <<Leaf(K_Callable), Cell(K_Callable, {n + 1}, 0)>>
        Inst(cal, args) == Cell(K_Instance, {cal, args}, cal)
        nextKey == Cardinality(DOMAIN M)
    IN
    CASE op = B_NONE -> Push(<<Leaf(K_Scalar)>>, L)
      [] op = B_MARK -> Push(<<Leaf(K_Mark)>>, L)
      [] op = B_EMPTY_LIST -> Push(<<Leaf(K_List)>>, L)
      [] op = B_EMPTY_DICT -> Push(<<Leaf(K_Dict)>>, L)
      [] op = B_EMPTY_TUPLE -> Push(<<Leaf(K_Tuple)>>, L)
      [] op = B_EMPTY_SET -> Push(<<Leaf(K_Set)>>, L)
      [] op \in {B_GLOBAL, B_EXT1, B_EXT2, B_EXT4} -> Push(Wrapped, L)
      [] op = B_STACK_GLOBAL -> Push(Wrapped, L - 2)
      [] op = B_BINPERSID -> Push(<<Leaf(K_Str)>>, L - 1)
      [] op = B_DUP -> IF DupShares THEN HeapOf(C, Append(S, top(0)), M) ELSE Push(<<C[top(0)]>>, L)
      [] op = B_POP -> HeapOf(C, SubSeq(S, 1, L - 1), M)
      [] op = B_POP_MARK -> HeapOf(C, SubSeq(S, 1, m - 1), M)
      [] op = B_TUPLE1 -> Push(<<Cell(K_Tuple, from(L), 0)>>, L - 1)
      [] op = B_TUPLE2 -> Push(<<Cell(K_Tuple, from(L - 1), 0)>>, L - 2)
      [] op = B_TUPLE3 -> Push(<<Cell(K_Tuple, from(L - 2), 0)>>, L - 3)
      [] op = B_TUPLE -> Push(<<Cell(K_Tuple, from(m + 1), 0)>>, m - 1)
      [] op = B_LIST -> Push(<<Cell(K_List, from(m + 1), 0)>>, m - 1)
      [] op = B_DICT -> Push(<<Cell(K_Dict, from(m + 1), 0)>>, m - 1)
      [] op = B_FROZENSET -> Push(<<Cell(K_FrozenSet, from(m + 1), 0)>>, m - 1)
      [] op = B_APPEND -> AddKids(top(1), {top(0)}, L - 1)
      [] op = B_SETITEM -> AddKids(top(2), {top(0), top(1)}, L - 2)
      [] op \in {B_APPENDS, B_SETITEMS, B_ADDITEMS} -> AddKids(S[m - 1], from(m + 1), m - 1)
      [] op \in {B_REDUCE, B_NEWOBJ} -> Push(<<Inst(Inner(top(1)), top(0))>>, L - 2)
      [] op = B_NEWOBJ_EX -> Push(<<Inst(Inner(top(2)), top(1))>>, L - 3)
      [] op = B_INST ->      \* a new global, the items above the mark as a new tuple, the instance
           Push(<<Leaf(K_Callable), Cell(K_Tuple, from(m + 1), 0), Inst(n + 1, n + 2)>>, m - 1)
      [] op = B_OBJ ->       \* the first item above the mark is the class, the rest a new tuple
           Push(<<Cell(K_Tuple, from(m + 2), 0), Inst(S[m + 1], n + 1)>>, m - 1)
      [] op = B_BUILD ->     \* inst.args = state; push a copy of the instance
           LET i == top(1)
               built == Inst(C[i].cal, top(0))
           IN HeapOf(Append([C EXCEPT ![i] = built], built), Append(SubSeq(S, 1, L - 2), n + 1), M)
      [] op \in PlainPutOps ->
           HeapOf(Append(C, C[top(0)]), S, ((IF key >= 0 THEN key ELSE nextKey) :> (n + 1)) @@ M)
      [] op = B_MEMOIZE ->
           HeapOf(C \o <<C[top(0)], C[top(0)]>>, Append(SubSeq(S, 1, L - 1), n + 2), (nextKey :> (n + 1)) @@ M)
      [] op \in GetOps -> Push(<<C[M[key]]>>, L)
      [] OTHER -> h

H == HeapOf(cells, stack, memo)
Kinds == KindsOf(H)

Init == cells = <<>> /\ stack = <<>> /\ memo = <<>> /\ nops = 0 /\ lastOp = -1

Step(op, key) ==
    /\ nops < MaxOps /\ Len(cells) + 3 <= MaxCells
    /\ Guard(Cfg, op, Kinds, DOMAIN memo)
    /\ LET h2 == Eff(H, op, key) IN cells' = h2.cells /\ stack' = h2.stack /\ memo' = h2.memo
    /\ nops' = nops + 1 /\ lastOp' = op

Next == \E op \in McOps : \E key \in (IF op \in GetOps THEN DOMAIN memo ELSE {-1}) : Step(op, key)
Spec == Init /\ [][Next]_vars

(* cells reachable from a set of cells through at least one strong reference *)
RECURSIVE ReachIn(_, _, _)
ReachIn(C, frontier, seen) ==
    LET nxt == UNION {C[c].kids : c \in frontier} \ seen IN
    IF nxt = {} THEN seen ELSE ReachIn(C, nxt, seen \cup nxt)
RootsOf(h) == {h.stack[k] : k \in 1..Len(h.stack)} \cup {h.memo[k] : k \in DOMAIN h.memo}
LiveOf(h) == RootsOf(h) \cup ReachIn(h.cells, RootsOf(h), {})
CycleIn(C, ids) == \E id \in ids : id \in ReachIn(C, {id}, {})

NoCycle == ~CycleIn(cells, 1..Len(cells))

(* the structural reason: a cell that is a stack slot is referenced by nothing else,
   and opcodes only ever add references to stack-slot cells *)
Unshared == \A k \in 1..Len(stack) :
               /\ \A j \in 1..Len(stack) : j # k => stack[j] # stack[k]
               /\ \A c \in 1..Len(cells) : stack[k] \notin cells[c].kids
               /\ \A x \in DOMAIN memo : memo[x] # stack[k]
MutatesOnlySlots == [][\A c \in 1..Len(cells) : cells'[c] # cells[c] => \E k \in 1..Len(stack) : stack[k] = c]_vars
=============================================================================
