-------------------------------- MODULE Heap --------------------------------
(* Refinement of the generator's simulated stack with CELL IDENTITIES and strong
   references, to decide C14 at design level: the simulated objects are
   Rc<RefCell<StackObject>> cells; containers own strong references to their items;
   reference counting frees a cell only when nothing points to it, so a strong
   CYCLE is never freed.  NoCycle is therefore equivalent to "everything is released
   when the roots (stack, memo) are dropped".

   DupShares = TRUE  : pinned tree, DUP pushes a second handle to the SAME cell
   DupShares = FALSE : repaired tree, DUP pushes a shallow copy (as GET / MEMOIZE / BUILD do)

   Opcodes: the aliasing-relevant subset.  Guards come from GenCore (can_emit), the
   heap effects are transcribed from src/generator/stack_ops.rs.                  *)
EXTENDS GenCore

CONSTANTS DupShares, MaxOps, MaxCells

VARIABLES cells,   \* id -> [kind, kids]   (kids = set of cell ids strongly referenced)
          stack,   \* sequence of cell ids
          memo,    \* key -> cell id
          nops, lastOp
vars == <<cells, stack, memo, nops, lastOp>>

HeapOps == {B_EMPTY_LIST, B_EMPTY_DICT, B_NONE, B_GLOBAL, B_MARK, B_DUP, B_POP, B_TUPLE1, B_TUPLE, B_LIST,
            B_APPEND, B_APPENDS, B_SETITEM, B_REDUCE, B_BUILD, B_PUT, B_GET, B_MEMOIZE, B_EMPTY_TUPLE}

Cfg == [P |-> 5, unsafe |-> FALSE, ext |-> FALSE, buf |-> FALSE, min |-> 0, max |-> 0]

Init == cells = <<>> /\ stack = <<>> /\ memo = <<>> /\ nops = 0 /\ lastOp = -1

Kinds == [k \in 1..Len(stack) |-> cells[stack[k]].kind]
MemoKinds == [k \in DOMAIN memo |-> cells[memo[k]].kind]
NextId == Len(cells) + 1
New(kind, kids) == [kind |-> kind, kids |-> kids]
TopId(d) == stack[Len(stack) - d]
Pop(n) == SubSeq(stack, 1, Len(stack) - n)
Copy(id) == New(cells[id].kind, cells[id].kids)

PushNew(kind) == /\ cells' = Append(cells, New(kind, {}))
                 /\ stack' = Append(stack, NextId)
                 /\ UNCHANGED memo

Do(op) ==
    LET m == TopMark(Kinds)
        above == {stack[k] : k \in (m + 1)..Len(stack)}
    IN
    CASE op = B_EMPTY_LIST -> PushNew(K_List)
      [] op = B_EMPTY_DICT -> PushNew(K_Dict)
      [] op = B_EMPTY_TUPLE -> PushNew(K_Tuple)
      [] op = B_NONE -> PushNew(K_Scalar)
      [] op = B_GLOBAL -> PushNew(K_Callable)
      [] op = B_MARK -> PushNew(K_Mark)
      [] op = B_DUP ->
           IF DupShares
           THEN stack' = Append(stack, TopId(0)) /\ UNCHANGED <<cells, memo>>
           ELSE cells' = Append(cells, Copy(TopId(0))) /\ stack' = Append(stack, NextId) /\ UNCHANGED memo
      [] op = B_POP -> stack' = Pop(1) /\ UNCHANGED <<cells, memo>>
      [] op = B_TUPLE1 ->
           /\ cells' = Append(cells, New(K_Tuple, {TopId(0)}))
           /\ stack' = Append(Pop(1), NextId) /\ UNCHANGED memo
      [] op \in {B_TUPLE, B_LIST} ->
           /\ cells' = Append(cells, New(IF op = B_TUPLE THEN K_Tuple ELSE K_List, above))
           /\ stack' = Append(SubSeq(stack, 1, m - 1), NextId) /\ UNCHANGED memo
      [] op = B_APPEND ->
           /\ cells' = [cells EXCEPT ![TopId(1)].kids = @ \cup {TopId(0)}]
           /\ stack' = Pop(1) /\ UNCHANGED memo
      [] op = B_APPENDS ->
           /\ cells' = [cells EXCEPT ![stack[m - 1]].kids = @ \cup above]
           /\ stack' = SubSeq(stack, 1, m - 1) /\ UNCHANGED memo
      [] op = B_SETITEM ->
           /\ cells' = [cells EXCEPT ![TopId(2)].kids = @ \cup {TopId(0), TopId(1)}]
           /\ stack' = Pop(2) /\ UNCHANGED memo
      [] op = B_REDUCE ->
           /\ cells' = Append(cells, New(K_Instance, {TopId(0)}))
           /\ stack' = Append(Pop(2), NextId) /\ UNCHANGED memo
      [] op = B_BUILD ->      \* inst.args = state; push a copy of the instance
           /\ cells' = Append([cells EXCEPT ![TopId(1)].kids = {TopId(0)}], New(K_Instance, {TopId(0)}))
           /\ stack' = Append(Pop(2), NextId) /\ UNCHANGED memo
      [] op = B_PUT ->
           /\ cells' = Append(cells, Copy(TopId(0)))
           /\ memo' = (Cardinality(DOMAIN memo) :> NextId) @@ memo /\ UNCHANGED stack
      [] op = B_MEMOIZE ->
           /\ cells' = cells \o <<Copy(TopId(0)), Copy(TopId(0))>>
           /\ memo' = (Cardinality(DOMAIN memo) :> NextId) @@ memo
           /\ stack' = Append(Pop(1), NextId + 1)
      [] op = B_GET ->
           \E k \in DOMAIN memo :
              /\ cells' = Append(cells, Copy(memo[k]))
              /\ stack' = Append(stack, NextId) /\ UNCHANGED memo
      [] OTHER -> FALSE

Step(op) ==
    /\ nops < MaxOps /\ Len(cells) + 2 <= MaxCells
    /\ Guard(Cfg, op, Kinds, DOMAIN memo)
    /\ Do(op)
    /\ nops' = nops + 1 /\ lastOp' = op

Next == \E op \in HeapOps : Step(op)
Spec == Init /\ [][Next]_vars

(* cells reachable from id through at least one strong reference *)
RECURSIVE ReachFrom(_, _)
ReachFrom(frontier, seen) ==
    LET nxt == UNION {cells[c].kids : c \in frontier} \ seen IN
    IF nxt = {} THEN seen ELSE ReachFrom(nxt, seen \cup nxt)
OnCycle(id) == id \in ReachFrom({id}, {})

NoCycle == \A id \in 1..Len(cells) : ~OnCycle(id)

(* the structural reason: a cell that is a stack slot is referenced by nothing else *)
Unshared == \A k \in 1..Len(stack) :
               /\ \A j \in 1..Len(stack) : j # k => stack[j] # stack[k]
               /\ \A c \in 1..Len(cells) : stack[k] \notin cells[c].kids
               /\ \A x \in DOMAIN memo : memo[x] # stack[k]
=============================================================================
