------------------------------ MODULE GenCore ------------------------------
(* The generator's decision logic as pure operators, transcribed from
   src/opcodes.rs (protocol tables), src/generator/validation.rs (can_emit),
   src/generator/stack_ops.rs (process_stack_ops) and src/generator/emission.rs.
   No variables here: GenModel turns these into a state machine, the trace specs
   use them to check the real generator's enabled sets and effects.

   Abstract generator kinds reuse RefPVM's numbering (K_Mark .. K_Instance); the
   generator never holds K_Any.  A model configuration is
        [P, unsafe, ext, buf, min, max].                                         *)
EXTENDS Naturals, Integers, Sequences, FiniteSets, TLC, PickleOps, RefPVM

CONSTANTS OneByte,   \* number of values of a one-byte memo index (256; 3 in small models)
          Pinned     \* TRUE: model the pinned tree with its known defects (F1, F2, F4)

(* hook kind code (src/verif.rs kind_code) -> abstract kind *)
Abs(g) == CASE g = 0 -> K_Mark
            [] g \in 1..4 -> K_Scalar
            [] g \in {5, 7} -> K_Bytes
            [] g = 6 -> K_Str
            [] g = 8 -> K_List
            [] g = 9 -> K_Tuple
            [] g = 10 -> K_Dict
            [] g = 11 -> K_Set
            [] g = 12 -> K_FrozenSet
            [] g \in {13, 15} -> K_Callable
            [] g = 14 -> K_Instance
            [] OTHER -> K_Any
GenKinds == 0..10

(* ---- protocol tables, in the order of src/opcodes.rs PICKLE_OPCODES ---- *)
Table0 == << B_INT, B_LONG, B_STRING, B_NONE, B_UNICODE, B_FLOAT, B_APPEND, B_LIST,
             B_TUPLE, B_DICT, B_SETITEM, B_POP, B_DUP, B_MARK, B_GET, B_PUT, B_GLOBAL,
             B_REDUCE, B_BUILD, B_INST, B_STOP, B_PERSID >>
Add1 == << B_BININT, B_BININT1, B_BININT2, B_BINSTRING, B_SHORT_BINSTRING, B_BINUNICODE,
           B_BINFLOAT, B_EMPTY_LIST, B_APPENDS, B_EMPTY_TUPLE, B_EMPTY_DICT, B_SETITEMS,
           B_POP_MARK, B_BINGET, B_LONG_BINGET, B_BINPUT, B_LONG_BINPUT, B_OBJ, B_BINPERSID >>
Add2 == << B_LONG1, B_LONG4, B_NEWTRUE, B_NEWFALSE, B_TUPLE1, B_TUPLE2, B_TUPLE3,
           B_EXT1, B_EXT2, B_EXT4, B_NEWOBJ, B_PROTO >>
Add3 == << B_BINBYTES, B_SHORT_BINBYTES >>
Add4 == << B_BINBYTES8, B_SHORT_BINUNICODE, B_BINUNICODE8, B_EMPTY_SET, B_ADDITEMS,
           B_FROZENSET, B_MEMOIZE, B_STACK_GLOBAL, B_NEWOBJ_EX, B_FRAME >>
Add5 == << B_BYTEARRAY8, B_NEXT_BUFFER, B_READONLY_BUFFER >>
Table(P) == CASE P = 0 -> Table0
              [] P = 1 -> Table0 \o Add1
              [] P = 2 -> Table0 \o Add1 \o Add2
              [] P = 3 -> Table0 \o Add1 \o Add2 \o Add3
              [] P = 4 -> Table0 \o Add1 \o Add2 \o Add3 \o Add4
              [] OTHER -> Table0 \o Add1 \o Add2 \o Add3 \o Add4 \o Add5
TableSet(P) == {Table(P)[j] : j \in 1..Len(Table(P))}

(* what the statement of C12 calls the vocabulary of protocol P *)
Vocabulary(P, ext, buf) ==
    {b \in 0..255 : KnownOp(b) /\ OpProto(b) <= P
                    /\ (b \in ExtOps => ext) /\ (b \in BufOps => buf)
                    /\ (b = B_PROTO => P >= 2)}

Family(op) == IF op \in IntLikeOps THEN IntLikeOps ELSE {op}

(* ---- stack helpers (s = abstract kind stack, bottom first) ---- *)
Top(s, d) == s[Len(s) - d]                 \* d = 0 is the top cell
(* m = TopMark(s), computed once per state by the callers *)
CntAboveM(s, m) == Len(s) - m               \* cells above the topmost MARK
BelowMarkM(s, m) == IF m > 1 THEN s[m - 1] ELSE -1
AboveMarkM(s, m) == IF m > 0 /\ m < Len(s) THEN s[m + 1] ELSE -1
HasMark(s) == TopMark(s) > 0
CntAbove(s) == CntAboveM(s, TopMark(s))

ValueOps == ScalarOps \cup OpenStrOps \cup StrOps \cup BytesOps
            \cup {B_EMPTY_LIST, B_EMPTY_DICT, B_EMPTY_TUPLE, B_EMPTY_SET, B_GLOBAL, B_PERSID, B_MARK}

(* ---- can_emit ---- *)
GuardM(mc, op, s, keys, m) ==
    LET n == Len(s) IN
    CASE op = B_POP -> n >= 1
      [] op = B_DUP -> n >= 1 /\ Top(s, 0) # K_Mark
      [] op = B_APPEND -> n >= 2 /\ Top(s, 1) = K_List
      [] op = B_APPENDS -> m > 0 /\ BelowMarkM(s, m) = K_List /\ CntAboveM(s, m) > 0
      [] op = B_SETITEM -> n >= 3 /\ Top(s, 2) = K_Dict
      [] op = B_SETITEMS -> m > 0 /\ BelowMarkM(s, m) = K_Dict /\ CntAboveM(s, m) > 0 /\ CntAboveM(s, m) % 2 = 0
      [] op = B_ADDITEMS -> m > 0 /\ BelowMarkM(s, m) = K_Set /\ CntAboveM(s, m) > 0
      [] op \in {B_TUPLE, B_LIST, B_FROZENSET, B_POP_MARK} -> m > 0
      [] op = B_DICT -> m > 0 /\ CntAboveM(s, m) > 0 /\ CntAboveM(s, m) % 2 = 0
      [] op = B_TUPLE1 -> n >= 1
      [] op = B_TUPLE2 -> n >= 2
      [] op = B_TUPLE3 -> n >= 3
      [] op \in {B_REDUCE, B_NEWOBJ} -> n >= 2 /\ Top(s, 1) = K_Callable /\ Top(s, 0) = K_Tuple
      [] op = B_NEWOBJ_EX -> n >= 3 /\ Top(s, 2) = K_Callable /\ Top(s, 1) = K_Tuple /\ Top(s, 0) = K_Dict
      [] op = B_BUILD -> n >= 2 /\ Top(s, 1) = K_Instance /\ Top(s, 0) \in {K_Tuple, K_Dict}
      [] op = B_INST -> m > 0 /\ CntAboveM(s, m) > 0
      [] op = B_OBJ -> m > 0 /\ AboveMarkM(s, m) = K_Callable
      [] op \in GetOps -> keys # {}
      [] op \in {B_PUT, B_LONG_BINPUT, B_MEMOIZE} -> n >= 1 /\ Top(s, 0) # K_Mark
      [] op = B_BINPUT -> n >= 1 /\ Top(s, 0) # K_Mark /\ (Pinned \/ Cardinality(keys) < OneByte)
      [] op = B_STACK_GLOBAL ->
           IF mc.unsafe THEN n >= 2 ELSE n >= 2 /\ Top(s, 0) = K_Str /\ Top(s, 1) = K_Str
      [] op = B_BINPERSID -> n >= 1
      [] op = B_PROTO -> FALSE                   \* proto_emitted is set by the header
      [] op \in {B_STOP, B_FRAME} -> FALSE
      [] op \in ValueOps -> TRUE
      [] op \in ExtOps -> mc.ext
      [] op = B_NEXT_BUFFER -> mc.buf
      [] op = B_READONLY_BUFFER -> mc.buf /\ (Pinned \/ (n >= 1 /\ Top(s, 0) # K_Mark))
      [] OTHER -> FALSE

Guard(mc, op, s, keys) == GuardM(mc, op, s, keys, TopMark(s))

EnabledSeq(mc, s, keys) == LET m == TopMark(s) IN SelectSeq(Table(mc.P), LAMBDA op : GuardM(mc, op, s, keys, m))
EnabledSeqM(mc, s, keys, m) == SelectSeq(Table(mc.P), LAMBDA op : GuardM(mc, op, s, keys, m))
EnabledSetM(mc, s, keys, m) == {op \in TableSet(mc.P) : GuardM(mc, op, s, keys, m)}
EnabledSet(mc, s, keys) == EnabledSetM(mc, s, keys, TopMark(s))

(* ---- emission + process_stack_ops ----
   Emissions(mc, claimed, s, memo) = set of possible outcomes of one
   emit_and_process(claimed) from abstract state (s, memo):
     [op  |-> opcode byte really written,
      arg |-> its memo-index argument (-1 if none),
      pop |-> cells removed from the top, push |-> kinds pushed afterwards,
      put |-> <<>> or <<key, kind>> written to the simulated memo]               *)
Out(op, arg, pop, push, put) == [op |-> op, arg |-> arg, pop |-> pop, push |-> push, put |-> put]

PushOf(op) ==
    CASE op \in ScalarOps -> K_Scalar
      [] op \in {B_STRING, B_PERSID} \cup StrOps -> K_Str
      [] op \in {B_BINSTRING, B_SHORT_BINSTRING, B_NEXT_BUFFER} \cup BytesOps -> K_Bytes
      [] op = B_EMPTY_LIST -> K_List
      [] op = B_EMPTY_DICT -> K_Dict
      [] op = B_EMPTY_TUPLE -> K_Tuple
      [] op = B_EMPTY_SET -> K_Set
      [] op = B_GLOBAL \/ op \in ExtOps -> K_Callable
      [] op = B_MARK -> K_Mark
      [] OTHER -> -1

Emissions(mc, claimed, s, memo) ==
    LET n == Len(s)
        keys == DOMAIN memo
        toMark == CntAbove(s) + 1                \* cells from the top through the MARK
    IN
    CASE claimed \in IntLikeOps ->
           {Out(op, -1, 0, <<K_Scalar>>, <<>>) : op \in IntLikeOps \cap TableSet(mc.P)}
      [] PushOf(claimed) # -1 -> {Out(claimed, -1, 0, <<PushOf(claimed)>>, <<>>)}
      [] claimed = B_POP -> {Out(claimed, -1, 1, <<>>, <<>>)}
      [] claimed = B_DUP -> {Out(claimed, -1, 0, <<Top(s, 0)>>, <<>>)}
      [] claimed = B_POP_MARK -> {Out(claimed, -1, toMark, <<>>, <<>>)}
      [] claimed = B_TUPLE -> {Out(claimed, -1, toMark, <<K_Tuple>>, <<>>)}
      [] claimed = B_LIST -> {Out(claimed, -1, toMark, <<K_List>>, <<>>)}
      [] claimed = B_FROZENSET -> {Out(claimed, -1, toMark, <<K_FrozenSet>>, <<>>)}
      [] claimed = B_DICT -> {Out(claimed, -1, toMark, <<K_Dict>>, <<>>)}
      [] claimed = B_TUPLE1 -> {Out(claimed, -1, 1, <<K_Tuple>>, <<>>)}
      [] claimed = B_TUPLE2 -> {Out(claimed, -1, 2, <<K_Tuple>>, <<>>)}
      [] claimed = B_TUPLE3 -> {Out(claimed, -1, 3, <<K_Tuple>>, <<>>)}
      [] claimed = B_APPEND -> {Out(claimed, -1, 1, <<>>, <<>>)}
      [] claimed = B_SETITEM -> {Out(claimed, -1, 2, <<>>, <<>>)}
      [] claimed \in {B_APPENDS, B_SETITEMS, B_ADDITEMS} -> {Out(claimed, -1, toMark, <<>>, <<>>)}
      [] claimed \in {B_REDUCE, B_NEWOBJ} -> {Out(claimed, -1, 2, <<K_Instance>>, <<>>)}
      [] claimed = B_NEWOBJ_EX -> {Out(claimed, -1, 3, <<K_Instance>>, <<>>)}
      [] claimed = B_BUILD -> {Out(claimed, -1, 2, <<K_Instance>>, <<>>)}
      [] claimed \in {B_INST, B_OBJ} -> {Out(claimed, -1, toMark, <<K_Instance>>, <<>>)}
      [] claimed = B_STACK_GLOBAL ->
           {Out(claimed, -1, 2, IF Top(s, 0) = K_Str /\ Top(s, 1) = K_Str THEN <<K_Callable>> ELSE <<>>, <<>>)}
      [] claimed = B_BINPERSID -> {Out(claimed, -1, 1, <<K_Str>>, <<>>)}
      [] claimed \in {B_PUT, B_LONG_BINPUT} ->
           {Out(claimed, Cardinality(keys), 0, <<>>, <<Cardinality(keys), Top(s, 0)>>)}
      [] claimed = B_BINPUT ->
           {Out(claimed, Cardinality(keys) % OneByte, 0, <<>>, <<Cardinality(keys) % OneByte, Top(s, 0)>>)}
      [] claimed = B_MEMOIZE ->
           {Out(claimed, -1, 1, <<Top(s, 0)>>, <<Cardinality(keys), Top(s, 0)>>)}
      [] claimed \in {B_GET, B_LONG_BINGET} ->
           {Out(claimed, k, 0, <<memo[k]>>, <<>>) : k \in keys}
           \cup (IF mc.unsafe THEN {Out(claimed, -3, 0, <<>>, <<>>)} ELSE {})
      [] claimed = B_BINGET ->
           {Out(claimed, k, 0, <<memo[k]>>, <<>>) : k \in {x \in keys : x < OneByte}}
           \cup (IF mc.unsafe THEN {Out(claimed, -3, 0, <<>>, <<>>)} ELSE {})
      [] claimed = B_READONLY_BUFFER -> {Out(claimed, -1, 0, <<>>, <<>>)}
      [] OTHER -> {}

(* does the observed change g -> g2 of the real generator (abstract kinds) match some
   Emission?  kept = cells the hook reports untouched, putDelta = memo entries written *)
AbsSeq(s) == [k \in 1..Len(s) |-> Abs(s[k])]
EffectOK(mc, claimed, g, g2, kept, putDelta) ==
    LET n == Len(g.stk)
        n2 == Len(g2.stk)
    IN \E o \in Emissions(mc, claimed, g.stk, g.memo) :
          /\ n2 = n - o.pop + Len(o.push)
          /\ kept >= n - o.pop
          /\ \A j \in 1..Len(o.push) : g2.stk[n - o.pop + j] = o.push[j]
          /\ putDelta = (IF o.put = <<>> THEN {} ELSE {<<o.put[1], o.put[2]>>})

(* ---- cleanup_for_stop: opcode the collapse phase emits next, or -1 when done ---- *)
CleanupOp(mc, s) ==
    IF TopMark(s) > 0 THEN B_TUPLE
    ELSE IF Len(s) >= 3 THEN (IF Pinned \/ mc.P >= 2 THEN B_TUPLE3 ELSE B_POP)
    ELSE IF Len(s) = 2 THEN (IF Pinned \/ mc.P >= 2 THEN B_TUPLE2 ELSE B_POP)
    ELSE IF Len(s) = 0 THEN B_NONE
    ELSE -1

(* ---- mutators (ids in the order of the harness' MUTATOR_NAMES) ---- *)
M_bitflip == 1
M_boundary == 2
M_offbyone == 3
M_stringlen == 4
M_character == 5
M_memoindex == 6
M_typeconfusion == 7
(* value classes: 1 int, 2 long, 3 float, 4 string, 5 bytes, 6 memo index *)
Applicable(m, vc) ==
    CASE vc \in {1, 2} -> m \in {M_bitflip, M_boundary, M_offbyone}
      [] vc = 3 -> m = M_boundary
      [] vc \in {4, 5} -> m \in {M_stringlen, M_character}
      [] vc = 6 -> m \in {M_offbyone, M_memoindex}
      [] OTHER -> FALSE
(* positions (1-based) of the mutator that must fire at rate 1.  The character
   mutator does not apply to an empty value, so when it comes first the next
   applicable position is acceptable too.                                        *)
RECURSIVE FirstApplicableFrom(_, _, _)
FirstApplicableFrom(muts, vc, j) ==
    IF j > Len(muts) THEN {}
    ELSE IF ~Applicable(muts[j], vc) THEN FirstApplicableFrom(muts, vc, j + 1)
    ELSE IF muts[j] = M_character
         THEN LET rest == FirstApplicableFrom(muts, vc, j + 1)
              IN {j} \cup (IF rest = {} THEN {0} ELSE rest)      \* 0 = "no mutation" acceptable
    ELSE {j}
FirstApplicable(muts, vc) == FirstApplicableFrom(muts, vc, 1)

ModelCfg(c) == [P |-> c.P, unsafe |-> c.unsafe = 1, ext |-> c.ext = 1, buf |-> c.buf = 1,
                min |-> c.min, max |-> c.max]
=============================================================================
