SPECIFICATION FairSpec
CONSTANTS
  OneByte = 3
  Pinned = FALSE
  Protocols <- MC_ProtoLive
  Ranges <- MC_RangesQuick
  Flags <- MC_FlagsQuick
  MaxCalls = 1
  MaxMemo = 4
PROPERTY Terminates
CHECK_DEADLOCK FALSE
