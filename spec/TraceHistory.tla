---------------------------- MODULE TraceHistory ----------------------------
(* Validation of API-level histories recorded from the real code.  One ndjson line
   = one history record, one TLC step per line; the record's field t selects the
   action.  The specification keeps the abstract life-cycle state the properties
   talk about (fresh results per configuration, digest per (configuration, input),
   opcode coverage per protocol) and evaluates the property at every step.

     t = "fresh" : results of generate / from_bytes(x) / from_bytes(y) on a new generator   (C08)
     t = "seq"   : a call sequence over {generate, from_bytes(x), from_bytes(y), reset}
                   on ONE reused generator, with every call's result                       (C08)
     t = "det"   : one generation in some context (thread, process, CLI worker count)       (C07)
     t = "total" : one batch of generation calls run in a watched child process             (C09)
     t = "vocab" : a generation claimed to contain given opcodes (bytes included)           (C12)
     t = "vocabend": end of the seed scan of one protocol and opt-in flag setting           (C12)
     t = "leak"  : live-heap delta around new .. drop of one generator                      (C14)
     t = "front" : a front-end run and the library run for the configuration the
                   front end's options denote                                               (C13)

   Findings are printed as <<"V"|"D", line, property/tag, reason>>.                *)
EXTENDS Naturals, Integers, Sequences, FiniteSets, TLC, Json, IOUtils, Lexer, RefPVM, GenCore, Frontend

Rec == ndJsonDeserialize(IOEnv.TRACE)
N == Len(Rec)

VARIABLES i,        \* lines consumed
          fresh,    \* cfg id -> <<result of call kind 1, 2, 3>> on a fresh generator
          digests,  \* job id -> digest of the first context that produced it
          covered,  \* protocol -> set of opcode bytes (256 = framed, 257 = unframed) witnessed
          ops,      \* opcode bytes decoded from the bytes of the current record (staged: TLC
                    \* re-evaluates LET definitions at every use)
          msgs
vars == <<i, fresh, digests, covered, ops, msgs>>

Init == i = 0 /\ fresh = <<>> /\ digests = <<>> /\ covered = [p \in 0..23 |-> {}] /\ ops = {} /\ msgs = <<>>

V(k, prop, why) == <<"V", k, prop, why>>
D(k, tag, why) == <<"D", k, tag, why>>

Put(f, k, v) == (k :> v) @@ f

(* ---- C08: GenModel says every GenerateCall starts from the initial state, so the
   n-th result on a reused generator equals the first result on a fresh one ---- *)
Fresh(k, e) ==
    /\ fresh' = Put(fresh, e.cfg, e.res)
    /\ msgs' = IF \E c \in 1..3 : e.res[c][1] # 1
               THEN <<V(k, "C09", "call on a fresh generator did not return Ok")>> ELSE <<>>
    /\ UNCHANGED <<digests, covered, ops>>

SeqLine(k, e) ==
    /\ msgs' =
         IF e.cfg \notin DOMAIN fresh THEN <<D(k, "order", "sequence before its fresh record")>>
         ELSE LET bad == {j \in 1..Len(e.seq) : e.seq[j] \in 1..3 /\ e.calls[j] # fresh[e.cfg][e.seq[j]]}
                  dirty == {j \in 1..Len(e.begins) : e.begins[j] # <<0, 0, 0, 0>>}
              IN (IF bad # {} THEN <<V(k, "C08", <<"result differs from a fresh generator at call", CHOOSE j \in bad : \A x \in bad : j <= x, "of", e.seq>>)>> ELSE <<>>)
              \o (IF dirty # {} THEN <<D(k, "dirty-entry", "a generation call started from leftover state")>> ELSE <<>>)
    /\ UNCHANGED <<fresh, digests, covered, ops>>

(* ---- C08 for a generator without a seed: every generate() draws fresh OS entropy, so a call that returns
   exactly what an earlier generate() on the same generator returned has NOT been independent of it ---- *)
Unseeded(k, e) ==
    /\ msgs' = LET gens == {j \in 1..Len(e.seq) : e.seq[j] = 1 /\ e.calls[j][1] = 1}
                   rep == {j \in gens : \E h \in gens : h < j /\ e.calls[h] = e.calls[j] /\ e.calls[j][3] > 40}
               IN IF rep # {} THEN <<V(k, "C08", <<"an unseeded generator returned an earlier result again at call", CHOOSE j \in rep : \A x \in rep : j <= x, "of", e.seq>>)>>
                  ELSE <<>>
    /\ UNCHANGED <<fresh, digests, covered, ops>>

(* ---- C08 with re-configuration between calls: each call depends on the configuration in force when it is made ---- *)
Reconf(k, e) ==
    /\ msgs' = LET bad == {j \in 1..Len(e.got) : e.got[j] # e.want[j]} IN
               IF bad # {} THEN <<V(k, "C08", <<"after re-configuration a reused generator differs from a fresh one with the same configuration at generation", CHOOSE j \in bad : \A x \in bad : j <= x, "of", e.steps>>)>>
               ELSE <<>>
    /\ UNCHANGED <<fresh, digests, covered, ops>>

(* ---- C07: the result is a function of (configuration, entropy input) only ---- *)
Det(k, e) ==
    /\ digests' = IF e.job \in DOMAIN digests THEN digests ELSE Put(digests, e.job, <<e.digest, e.len, e.ctx>>)
    /\ msgs' = (IF e.res # 1 THEN <<V(k, "C09", <<"generation failed in context", e.ctx>>)>> ELSE <<>>)
            \o (IF e.job \in DOMAIN digests /\ (digests[e.job][1] # e.digest \/ digests[e.job][2] # e.len)
                THEN <<V(k, "C07", <<"same configuration and input, different bytes", digests[e.job][3], e.ctx>>)>> ELSE <<>>)
    /\ UNCHANGED <<fresh, covered, ops>>

(* ---- C09: every call returns Ok with a non-empty pickle; no abort, no timeout ---- *)
Total(k, e) ==
    /\ msgs' = IF e.exit # 1 THEN <<V(k, "C09", <<"batch did not finish", e.first_bad>>)>>
               ELSE IF e.ok # e.calls THEN <<V(k, "C09", <<"call failed", e.first_bad>>)>>
               ELSE IF e.nonempty # e.calls THEN <<V(k, "C09", "empty result")>>
               ELSE <<>>
    /\ UNCHANGED <<fresh, digests, covered, ops>>

(* ---- C12: the claimed opcodes really occur in the decoded bytes ---- *)
RECURSIVE OpsFrom(_, _, _)
OpsFrom(b, p, acc) ==
    IF p > Len(b) THEN acc
    ELSE LET r == LexAt(b, p) IN
         IF ~r.known \/ ~r.ok \/ r.op = B_STOP THEN acc \cup {r.op}
         ELSE OpsFrom(b, r.nxt, acc \cup {r.op})

(* one coverage set per (protocol, EXT flag, buffer flag) *)
VKey(e) == e.P * 4 + e.ext + 2 * e.buf

Vocab(k, e) ==
    LET claims == {e.claims[j] : j \in 1..Len(e.claims)} IN
    /\ ops' = LET o == OpsFrom(e.bytes, 1, {}) IN o \cup (IF B_FRAME \in o THEN {256} ELSE {257})
    /\ covered' = [covered EXCEPT ![VKey(e)] = @ \cup (claims \cap ops')]
    /\ msgs' = IF claims \subseteq ops' THEN <<>>
               ELSE <<D(k, "vocab", <<"hook claimed opcodes that the lexer does not find", claims \ ops'>>)>>
    /\ UNCHANGED <<fresh, digests>>

VocabEnd(k, e) ==
    \* the default-settings scan answers for the standard vocabulary; a scan with opt-in opcodes
    \* enabled (fewer seeds) answers for exactly the opcodes its flags add
    LET need == IF e.ext = 0 /\ e.buf = 0
                THEN Vocabulary(e.P, FALSE, FALSE) \cup (IF e.P >= 4 THEN {256, 257} ELSE {})
                ELSE Vocabulary(e.P, e.ext = 1, e.buf = 1) \ Vocabulary(e.P, FALSE, FALSE)
        missing == need \ covered[VKey(e)]
    IN /\ msgs' = IF missing = {} THEN <<>>
                  ELSE <<V(k, "C12", <<"opcodes never produced for protocol", e.P, "in seeds", e.first_seed, e.n, missing,
                                       "EXT / buffer opcodes enabled:", e.ext, e.buf>>)>>
       /\ UNCHANGED <<fresh, digests, covered, ops>>

(* ---- C14: nothing stays allocated after the generator is dropped ---- *)
Leak(k, e) ==
    /\ msgs' = (IF e.leaked # 0 /\ e.cycle
                THEN <<V(k, "C14", <<"reference cycle closed by opcode", e.cycle_op, "bytes leaked", e.leaked>>)>> ELSE <<>>)
            \o (IF e.leaked # 0 /\ ~e.cycle THEN <<V(k, "C14", <<"heap not released, no reference cycle", e.leaked>>)>> ELSE <<>>)
            \o (IF e.leaked = 0 /\ e.cycle THEN <<D(k, "cycle", "reference cycle observed but no leak measured")>> ELSE <<>>)
            \o (IF e.shared # 0 THEN <<D(k, "shared-cell", "two stack slots hold the same cell (Heap!Unshared does not hold on this run)")>> ELSE <<>>)
            \* bounded memory under reuse: after reset() a generator holds a fixed set of containers (one allocation each,
            \* whatever their capacity); a count that keeps growing with the number of pickles generated is a leak
            \o (IF e.growth > 8 THEN <<V(k, "C14", <<"live allocations after reset() keep growing with the number of generations on one generator", e.growth>>)>> ELSE <<>>)
    /\ UNCHANGED <<fresh, digests, covered, ops>>

(* ---- C13: the front end produces the library's bytes for the configuration that
   its options denote according to the Frontend specification ---- *)
FrameSpansRest(b) ==
    IF Len(b) >= 11 /\ b[1] = 128 /\ b[3] = 149
    THEN /\ b[4] + 256 * b[5] + 65536 * b[6] + 16777216 * (b[7] % 128) = Len(b) - 11
         /\ b[7] < 128 /\ b[8] = 0 /\ b[9] = 0 /\ b[10] = 0 /\ b[11] = 0
    ELSE TRUE

Front(k, e) ==
    /\ ops' = IF "gotb" \in DOMAIN e THEN OpsFrom(e.gotb, 1, {}) ELSE {}
    /\ msgs' = (IF e.kind = "cli" /\ e.libcfg # CliConfig(e.opts)
                THEN <<D(k, "frontend-map", <<"driver's option mapping differs from Frontend!CliConfig", CliConfig(e.opts)>>)>> ELSE <<>>)
            \o (IF e.kind = "py" /\ e.libcfg # PyConfig(e.calls)
                THEN <<D(k, "frontend-map", <<"driver's call mapping differs from Frontend!PyConfig", PyConfig(e.calls)>>)>> ELSE <<>>)
            \o (IF e.exit # e.want_exit THEN <<V(k, "C13", <<"exit status", e.exit, "expected", e.want_exit, e.what>>)>> ELSE <<>>)
            \o (IF e.files # e.want_files THEN <<V(k, "C13", <<"files written differ from 0.pkl..N-1.pkl", e.what>>)>> ELSE <<>>)
            \o (IF e.got # e.lib THEN <<V(k, "C13", <<"front-end bytes differ from library bytes", e.what>>)>> ELSE <<>>)
            \* C05 at the front ends: header and vocabulary of the protocol the options denote
            \o (IF "gotb" \in DOMAIN e /\ Len(e.gotb) >= 2 /\ e.libcfg.unsafe = 0
                   /\ ( (e.libcfg.P >= 2 /\ (e.gotb[1] # 128 \/ e.gotb[2] # e.libcfg.P))
                      \/ (e.libcfg.P < 2 /\ e.gotb[1] = 128)
                      \/ \E o \in ops' : o < 256 /\ OpProto(o) > e.libcfg.P )
                THEN <<V(k, "C05", <<"front-end output is not a pickle of the protocol the options denote", e.libcfg.P, e.what>>)>> ELSE <<>>)
            \* C06 at the front ends: the file a front end wrote is the pickle, so its FRAME must span exactly the rest of the FILE
            \o (IF "gotb" \in DOMAIN e /\ ~FrameSpansRest(e.gotb)
                THEN <<V(k, "C06", <<"front-end output: FRAME length differs from the number of bytes that follow in the file", e.what>>)>> ELSE <<>>)
            \* C10 at the front ends: the opcodes of the bytes the front end wrote, against the flags its options denote
            \o (IF ops' \cap ExtOps # {} /\ e.libcfg.ext = 0
                THEN <<V(k, "C10", <<"EXT opcode in front-end output although the options do not enable it", e.what>>)>> ELSE <<>>)
            \o (IF ops' \cap BufOps # {} /\ e.libcfg.buf = 0
                THEN <<V(k, "C10", <<"buffer opcode in front-end output although the options do not enable it", e.what>>)>> ELSE <<>>)
    /\ UNCHANGED <<fresh, digests, covered>>

Step ==
    /\ i < N
    /\ LET k == i + 1
           e == Rec[k]
       IN /\ i' = k
          /\ CASE e.t = "fresh" -> Fresh(k, e)
               [] e.t = "seq" -> SeqLine(k, e)
               [] e.t = "unseeded" -> Unseeded(k, e)
               [] e.t = "reconf" -> Reconf(k, e)
               [] e.t = "det" -> Det(k, e)
               [] e.t = "total" -> Total(k, e)
               [] e.t = "vocab" -> Vocab(k, e)
               [] e.t = "vocabend" -> VocabEnd(k, e)
               [] e.t = "vocabreset" -> msgs' = <<>> /\ covered' = [p \in 0..23 |-> {}] /\ UNCHANGED <<fresh, digests, ops>>
               [] e.t = "leak" -> Leak(k, e)
               [] e.t = "front" -> Front(k, e)
               [] OTHER -> msgs' = <<D(k, "record", "unknown record type")>> /\ UNCHANGED <<fresh, digests, covered, ops>>

Spec == Init /\ [][Step]_vars

Report == /\ (msgs = <<>> \/ PrintT(<<"MSGS", msgs>>))
          /\ (i < N \/ PrintT(<<"DONE", N, N>>))
=============================================================================
