---------------------------- MODULE EntropyModel ----------------------------
(* The fuzzer-bytes entropy mode as a function: how generate_from_arbitrary turns
   the caller's bytes into decisions.  Transcribed from src/generator/source.rs
   (EntropySource for GenerationSource::Arbitrary), arbitrary-1.4.2
   (Unstructured::int_in_range / fill_buffer: bytes needed for the range, taken from
   the front, big-endian, modulo; fewer bytes left = take what is there, none = the
   fallback) and the draws each emitter of src/generator/emission.rs makes.

   With this, for a configuration WITHOUT mutators, the specification predicts from
   the input bytes alone: the FRAME coin, the target T, at every body step which of
   the enabled opcodes is chosen (protocol-table order), which integer variant is
   written, and how many input bytes the whole generation consumes.  The trace spec
   compares each prediction with what the real generator did; a mismatch is drift
   (no listed property prescribes a particular consumption), but it binds "the
   result is a function of configuration and input bytes" (C07) step by step.     *)
EXTENDS GenCore

NeedBytes(delta) == IF delta = 0 THEN 0 ELSE IF delta < 256 THEN 1 ELSE IF delta < 65536 THEN 2 ELSE 3
TakeN(inp, cur, k) == IF Len(inp) - cur < k THEN Len(inp) - cur ELSE k
RECURSIVE BEFrom(_, _, _, _)
BEFrom(inp, cur, k, acc) == IF k = 0 THEN acc ELSE BEFrom(inp, cur + 1, k - 1, acc * 256 + inp[cur + 1])

(* int_in_range(0..=delta): <<value, new cursor>>  (delta < 2^24) *)
Draw(inp, cur, delta) ==
    LET k == TakeN(inp, cur, NeedBytes(delta)) IN <<BEFrom(inp, cur, k, 0) % (delta + 1), cur + k>>
(* choose_index(n) / gen_range(0, n) *)
Choose(inp, cur, n) == IF n = 0 THEN <<0, cur>> ELSE Draw(inp, cur, n - 1)
U8(inp, cur) == IF cur < Len(inp) THEN <<inp[cur + 1], cur + 1>> ELSE <<0, cur>>
Skip(inp, cur, k) == cur + TakeN(inp, cur, k)

StdlibEntries == 19061          \* lines of data/stdlib_complete.txt

IntSeq(P) == SelectSeq(Table(P), LAMBDA op : op \in IntLikeOps)
TextOps == {B_STRING, B_UNICODE, B_SHORT_BINUNICODE, B_BINUNICODE, B_BINUNICODE8,
            B_BINSTRING, B_SHORT_BINSTRING, B_SHORT_BINBYTES, B_BINBYTES, B_BINBYTES8, B_BYTEARRAY8}

(* cursor after the draws of emit_and_process(claimed) without mutators;
   nk = memo keys, nk1 = memo keys below OneByte *)
EmitConsume(mc, claimed, inp, cur, nk, nk1) ==
    CASE claimed \in IntLikeOps -> Skip(inp, Choose(inp, cur, Len(IntSeq(mc.P)))[2], 4)
      [] claimed \in {B_FLOAT, B_BINFLOAT} -> Skip(inp, cur, 8)
      [] claimed \in TextOps -> LET l == U8(inp, cur) IN Skip(inp, l[2], l[1] % 32)
      [] claimed \in {B_GLOBAL, B_INST} -> Choose(inp, cur, StdlibEntries)[2]
      [] claimed = B_PERSID -> Skip(inp, cur, 4)
      [] claimed = B_EXT1 -> Skip(inp, cur, 1)
      [] claimed = B_EXT2 -> Skip(inp, cur, 2)
      [] claimed = B_EXT4 -> Skip(inp, cur, 4)
      [] claimed \in {B_GET, B_LONG_BINGET} -> Choose(inp, cur, nk)[2]
      [] claimed = B_BINGET -> Choose(inp, cur, nk1)[2]
      [] OTHER -> cur

(* the integer variant emit_int writes *)
IntVariant(mc, inp, cur) == IntSeq(mc.P)[Choose(inp, cur, Len(IntSeq(mc.P)))[1] + 1]
=============================================================================
