---------------------------- MODULE EntropyModel ----------------------------
(* The fuzzer-bytes entropy mode as a function: how generate_from_arbitrary turns
   the caller's bytes into decisions.  Transcribed from src/generator/source.rs
   (EntropySource for GenerationSource::Arbitrary), arbitrary-1.4.2
   (Unstructured::int_in_range / fill_buffer: bytes needed for the range, taken from
   the front, big-endian, modulo; fewer bytes left = take what is there, none = the
   fallback) and the draws each emitter of src/generator/emission.rs makes.

   With this, for a configuration without mutators - or with SAFE mutators at rate 0.0 or
   1.0 - the specification predicts from
   the input bytes alone: the FRAME coin, the target T, at every body step which of
   the enabled opcodes is chosen (protocol-table order), which integer variant is
   written, and how many input bytes the whole generation consumes.  The trace spec
   compares each prediction with what the real generator did; a mismatch is drift
   (no listed property prescribes a particular consumption), but it binds "the
   result is a function of configuration and input bytes" (C07) step by step.     *)
EXTENDS GenCore

NeedBytes(delta) == IF delta = 0 THEN 0 ELSE IF delta < 256 THEN 1 ELSE IF delta < 65536 THEN 2 ELSE 3
TakeN(inp, cur, k) == IF Len(inp) - cur < k THEN Len(inp) - cur ELSE k
RECURSIVE BEFrom(_, _, _, _)
BEFrom(inp, cur, k, acc) == IF k = 0 THEN acc ELSE BEFrom(inp, cur + 1, k - 1, acc * 256 + inp[cur + 1])

(* int_in_range(0..=delta): <<value, new cursor>>  (delta < 2^24) *)
Draw(inp, cur, delta) ==
    LET k == TakeN(inp, cur, NeedBytes(delta)) IN <<BEFrom(inp, cur, k, 0) % (delta + 1), cur + k>>
(* choose_index(n) / gen_range(0, n) *)
Choose(inp, cur, n) == IF n = 0 THEN <<0, cur>> ELSE Draw(inp, cur, n - 1)
U8(inp, cur) == IF cur < Len(inp) THEN <<inp[cur + 1], cur + 1>> ELSE <<0, cur>>
Skip(inp, cur, k) == cur + TakeN(inp, cur, k)

StdlibEntries == 19061          \* lines of data/stdlib_complete.txt

IntSeq(P) == SelectSeq(Table(P), LAMBDA op : op \in IntLikeOps)
TextOps == {B_STRING, B_UNICODE, B_SHORT_BINUNICODE, B_BINUNICODE, B_BINUNICODE8,
            B_BINSTRING, B_SHORT_BINSTRING, B_SHORT_BINBYTES, B_BINBYTES, B_BINBYTES8, B_BYTEARRAY8}

(* ---- safe mutators at rate 0.0 or 1.0 (rate code 0 / 2) ----
   Generator::mutate_<kind> tries the registered mutators in order.  A mutator that implements
   the value kind first draws the 8-byte probability (gen_unit_f64); at rate 0.0 it then declines,
   at rate 1.0 it fires (the character mutator declines on an empty value) and makes its own
   draws; the first one that fires ends the loop.  vc: 1 int, 3 float, 4 string, 5 bytes, 6 memo
   index; n = length of the string / byte value.                                              *)
Implements(m, vc) ==
    CASE vc = 1 -> m \in {M_bitflip, M_boundary, M_offbyone}
      [] vc = 3 -> m = M_boundary
      [] vc \in {4, 5} -> m \in {M_stringlen, M_character}
      [] vc = 6 -> m \in {M_offbyone, M_memoindex}
      [] OTHER -> FALSE

(* draws of the mutator itself once it fires; cursor after them *)
FiredConsume(m, vc, inp, cur, n) ==
    CASE m = M_bitflip -> Skip(inp, cur, 1)
      [] m = M_boundary -> Skip(inp, cur, 1)
      [] m = M_offbyone -> Skip(inp, cur, 1)
      [] m = M_memoindex -> Skip(inp, cur, 1)
      [] m = M_character -> Skip(inp, Choose(inp, cur, n)[2], 1)
      [] m = M_stringlen ->
           LET k == Choose(inp, cur, 3) IN
           IF k[1] = 0 THEN (IF n = 0 THEN k[2] ELSE Choose(inp, k[2], n)[2])
           ELSE IF k[1] = 1 THEN LET e == Draw(inp, k[2], 8) IN Skip(inp, e[2], e[1] + 1)
           ELSE k[2]
      [] OTHER -> cur

RECURSIVE MutConsume(_, _, _, _, _, _, _)
MutConsume(muts, j, vc, rate, inp, cur, n) ==
    IF j > Len(muts) THEN cur
    ELSE IF ~Implements(muts[j], vc) THEN MutConsume(muts, j + 1, vc, rate, inp, cur, n)
    ELSE LET g == Skip(inp, cur, 8) IN          \* the probability draw
         IF rate = 0 \/ (muts[j] = M_character /\ n = 0) THEN MutConsume(muts, j + 1, vc, rate, inp, g, n)
         ELSE FiredConsume(muts[j], vc, inp, g, n)

(* cursor after the draws of emit_and_process(claimed) without mutators;
   nk = memo keys, nk1 = memo keys below OneByte *)
EmitConsume(mc, claimed, inp, cur, nk, nk1, muts, rate) ==
    CASE claimed \in IntLikeOps ->
           MutConsume(muts, 1, 1, rate, inp, Skip(inp, Choose(inp, cur, Len(IntSeq(mc.P)))[2], 4), 0)
      [] claimed \in {B_FLOAT, B_BINFLOAT} -> MutConsume(muts, 1, 3, rate, inp, Skip(inp, cur, 8), 0)
      [] claimed \in TextOps ->
           LET l == U8(inp, cur)
               n == l[1] % 32
               vc == IF claimed \in {B_STRING, B_UNICODE, B_SHORT_BINUNICODE, B_BINUNICODE, B_BINUNICODE8} THEN 4 ELSE 5
           IN MutConsume(muts, 1, vc, rate, inp, Skip(inp, l[2], n), n)
      [] claimed \in {B_GLOBAL, B_INST} -> Choose(inp, cur, StdlibEntries)[2]
      [] claimed = B_PERSID -> Skip(inp, cur, 4)
      [] claimed = B_EXT1 -> Skip(inp, cur, 1)
      [] claimed = B_EXT2 -> Skip(inp, cur, 2)
      [] claimed = B_EXT4 -> Skip(inp, cur, 4)
      [] claimed \in {B_GET, B_LONG_BINGET} -> MutConsume(muts, 1, 6, rate, inp, Choose(inp, cur, nk)[2], 0)
      [] claimed = B_BINGET -> MutConsume(muts, 1, 6, rate, inp, Choose(inp, cur, nk1)[2], 0)
      [] OTHER -> cur

(* the integer variant emit_int writes *)
IntVariant(mc, inp, cur) == IntSeq(mc.P)[Choose(inp, cur, Len(IntSeq(mc.P)))[1] + 1]
=============================================================================
