----------------------------- MODULE TraceCalls -----------------------------
(* Contracts of the entropy adapters (C18), of every mutator (C16) and of the
   mutation-rate gate (C15), evaluated by TLC on records of DIRECT calls of the real
   code with harness-chosen values and entropy sources.  This is the "small function
   with rich case analysis" use of the specification: the case grid is enumerated by
   the harness, TLC is the oracle.  Wide values are little-endian 16-bit limbs.

   Record fields: t ("ent" | "mut"), sk (1 = PRNG seed, 2 = fuzzer bytes), src,
   ent: m (method), a, b (arguments), r (result), used (fuzzer bytes consumed), panic
   mut: mut (1..7), um (mutator built in unsafe mode), rate (0: 0.0, 1: 0.5, 2: 1.0),
        meth (int long float memo string bytes post), in, out [some, v], snap, panic  *)
EXTENDS Naturals, Integers, Sequences, FiniteSets, TLC, Json, IOUtils, Lexer

Rec == ndJsonDeserialize(IOEnv.TRACE)
N == Len(Rec)

VARIABLES i, msgs
vars == <<i, msgs>>
Init == i = 0 /\ msgs = <<>>

V(k, prop, why) == <<"V", k, prop, why>>

(* ---- limb arithmetic ---- *)
LZero(l) == \A k \in 1..Len(l) : l[k] = 0
LMax(l) == \A k \in 1..Len(l) : l[k] = 65535
RECURSIVE LLessFrom(_, _, _)
LLessFrom(a, b, k) == IF k = 0 THEN FALSE
                      ELSE IF a[k] # b[k] THEN a[k] < b[k] ELSE LLessFrom(a, b, k - 1)
LLess(a, b) == LLessFrom(a, b, Len(a))
LLeq(a, b) == a = b \/ LLess(a, b)
RECURSIVE LSuccFrom(_, _)
LSuccFrom(l, k) == IF k > Len(l) THEN l
                   ELSE IF l[k] < 65535 THEN [l EXCEPT ![k] = @ + 1]
                   ELSE LSuccFrom([l EXCEPT ![k] = 0], k + 1)
LSucc(l) == LSuccFrom(l, 1)                       \* wrapping
RECURSIVE LPredFrom(_, _)
LPredFrom(l, k) == IF k > Len(l) THEN l
                   ELSE IF l[k] > 0 THEN [l EXCEPT ![k] = @ - 1]
                   ELSE LPredFrom([l EXCEPT ![k] = 65535], k + 1)
LPred(l) == LPredFrom(l, 1)                       \* wrapping
SatSucc(l) == IF LMax(l) THEN l ELSE LSucc(l)
SatPred(l) == IF LZero(l) THEN l ELSE LPred(l)
Small(l) == (\A k \in 3..Len(l) : l[k] = 0) /\ (Len(l) < 2 \/ l[2] < 256)    \* value < 2^24
ToInt(l) == l[1] + (IF Len(l) >= 2 THEN 65536 * l[2] ELSE 0)

OneBitDiff(x, y) == \E k \in 0..15 : \/ (y = x + 2 ^ k /\ (x \div 2 ^ k) % 2 = 0)
                                     \/ (x = y + 2 ^ k /\ (y \div 2 ^ k) % 2 = 0)
ExactlyOneBit(a, b) ==
    /\ Len(a) = Len(b)
    /\ Cardinality({k \in 1..Len(a) : a[k] # b[k]}) = 1
    /\ \A k \in 1..Len(a) : a[k] # b[k] => OneBitDiff(a[k], b[k])

IsPrefixOf(p, s) == Len(p) <= Len(s) /\ \A k \in 1..Len(p) : p[k] = s[k]

(* ---- C18: entropy adapters ---- *)
(* arbitrary::Unstructured::int_in_range over 0..=delta with fuzzer bytes src (delta < 2^24):
   bytes needed for delta, big-endian accumulation of the bytes available, mod (delta+1) *)
BytesNeeded(delta) == IF delta = 0 THEN 0 ELSE IF delta < 256 THEN 1 ELSE IF delta < 65536 THEN 2 ELSE 3
RECURSIVE BigEndian(_, _, _)
BigEndian(src, k, acc) == IF k = 0 THEN acc ELSE BigEndian(Tail(src), k - 1, acc * 256 + Head(src))
Min2(x, y) == IF x < y THEN x ELSE y
PredictOffset(delta, src) ==
    LET k == Min2(BytesNeeded(delta), Len(src)) IN <<BigEndian(src, k, 0) % (delta + 1), k>>

EntFindings(k, e) ==
    IF e.panic # "" THEN <<V(k, "C18", <<"entropy adapter panicked", e.m, e.panic>>)>>
    ELSE CASE e.m = "choose_index" ->
           (IF LZero(e.a) /\ ~LZero(e.r) THEN <<V(k, "C18", "choose_index(0) is not 0")>> ELSE <<>>)
        \o (IF ~LZero(e.a) /\ ~LLess(e.r, e.a) THEN <<V(k, "C18", <<"choose_index result not below n", e.a, e.r>>)>> ELSE <<>>)
        \o (IF e.sk = 2 /\ ~LZero(e.a) /\ Small(e.a)
               /\ <<ToInt(e.r), e.used>> # PredictOffset(ToInt(e.a) - 1, e.src)
            THEN <<V(k, "C18", <<"choose_index differs from the specified function of the input bytes", e.a, e.src, e.r, e.used>>)>> ELSE <<>>)
      [] e.m = "gen_range" ->
           (IF LLeq(e.b, e.a) /\ e.r # e.a THEN <<V(k, "C18", <<"gen_range(a,b) with a >= b is not a", e.a, e.b, e.r>>)>> ELSE <<>>)
        \o (IF LLess(e.a, e.b) /\ ~(LLeq(e.a, e.r) /\ LLess(e.r, e.b))
            THEN <<V(k, "C18", <<"gen_range result outside [a,b)", e.a, e.b, e.r>>)>> ELSE <<>>)
        \o (IF e.sk = 2 /\ LLess(e.a, e.b) /\ Small(e.a) /\ Small(e.b) /\ Small(e.r)
               /\ <<ToInt(e.r) - ToInt(e.a), e.used>> # PredictOffset(ToInt(e.b) - 1 - ToInt(e.a), e.src)
            THEN <<V(k, "C18", <<"gen_range differs from the specified function of the input bytes", e.a, e.b, e.src, e.r, e.used>>)>> ELSE <<>>)
      [] e.m = "gen_ascii_char" ->
           IF Small(e.r) /\ ToInt(e.r) \in 32..126 THEN <<>> ELSE <<V(k, "C18", <<"not a printable ASCII character", e.r>>)>>
      [] e.m = "gen_bytes" ->
           IF e.r = e.a THEN <<>> ELSE <<V(k, "C18", <<"byte string of the wrong length", e.a, e.r>>)>>
      [] e.m = "scalars" ->
           IF e.r[1] = 1 THEN <<>> ELSE <<V(k, "C15", "probability draw outside [0,1)")>>
      [] OTHER -> <<V(k, "C18", "unknown method")>>

(* ---- C16 / C15: mutators ---- *)
M_bitflip == 1
M_boundary == 2
M_offbyone == 3
M_stringlen == 4
M_character == 5
M_memoindex == 6
M_typeconfusion == 7

TC_Int == {73, 74, 75, 77, 76, 138, 139}
TC_Float == {70, 71}
TC_Str == {83, 86, 140, 88, 141}
TC_Bytes == {66, 67, 142, 84, 85}
TC_List == {93, 108}
TC_Tuple == {41, 116, 133, 134, 135}
TC_Dict == {125, 100}
TC_None == {78}
TC_Bool == {136, 137}
TypeClasses == <<TC_Int, TC_Float, TC_Str, TC_Bytes, TC_List, TC_Tuple, TC_Dict, TC_None, TC_Bool>>
TypeClass(b) == IF \E c \in 1..9 : b \in TypeClasses[c] THEN CHOOSE c \in 1..9 : b \in TypeClasses[c] ELSE 0

Applies(e) ==
    CASE e.meth \in {"int", "long"} -> e.mut \in {M_bitflip, M_boundary, M_offbyone}
      [] e.meth = "float" -> e.mut = M_boundary
      [] e.meth = "memo" -> e.mut \in {M_offbyone, M_memoindex}
      [] e.meth \in {"string", "bytes"} -> e.mut = M_stringlen \/ (e.mut = M_character /\ e.in # <<>>)
      [] e.meth = "post" -> e.mut = M_typeconfusion /\ e.um = 1 /\ Len(e.in) > e.snap /\ TypeClass(e.in[e.snap + 1]) # 0
      [] OTHER -> FALSE

BoundaryInts == {<<0, 0>>, <<65535, 65535>>, <<1, 0>>, <<65535, 32767>>, <<0, 32768>>}
BoundaryLongs == {<<0, 0, 0, 0>>, <<65535, 65535, 65535, 65535>>, <<1, 0, 0, 0>>,
                  <<65535, 65535, 65535, 32767>>, <<0, 0, 0, 32768>>}
BoundaryFloats == {<<0, 0, 0, 0>>, <<0, 0, 0, 49136>>, <<0, 0, 0, 16368>>, <<65535, 65535, 65535, 32751>>,
                   <<65535, 65535, 65535, 65519>>, <<0, 0, 0, 32752>>, <<0, 0, 0, 65520>>, <<0, 0, 0, 32760>>}

Contract(e) ==     \* e.out.some = 1, value mutation
    LET x == e.in
        y == e.out.v
    IN CASE e.mut = M_bitflip -> ExactlyOneBit(x, y)
         [] e.mut = M_boundary /\ e.meth = "int" -> y \in BoundaryInts
         [] e.mut = M_boundary /\ e.meth = "long" -> y \in BoundaryLongs
         [] e.mut = M_boundary /\ e.meth = "float" -> y \in BoundaryFloats
         [] e.mut = M_offbyone /\ e.meth \in {"int", "long"} -> y = LSucc(x) \/ y = LPred(x)
         [] e.mut = M_offbyone /\ e.meth = "memo" -> y = SatSucc(x) \/ y = SatPred(x)
         [] e.mut = M_stringlen ->
              \/ IsPrefixOf(y, x)
              \/ (IsPrefixOf(x, y) /\ Len(y) - Len(x) \in 1..9
                  /\ (e.meth = "string" => \A k \in (Len(x) + 1)..Len(y) : y[k] \in 97..122))
              \/ y = x \o x
         [] e.mut = M_character ->
              /\ Len(y) = Len(x)
              /\ Cardinality({k \in 1..Len(x) : x[k] # y[k]}) <= 1
              /\ (e.meth = "string" => \A k \in 1..Len(x) : x[k] # y[k] => y[k] \in 33..126)
         [] e.mut = M_memoindex /\ e.um = 0 -> y = x \/ y = SatSucc(x) \/ y = SatPred(x)
         [] e.mut = M_memoindex /\ e.um = 1 -> Small(y) /\ ToInt(y) < 1000
         [] OTHER -> FALSE

PostContract(e) ==   \* post-emission rewrite: e.in = output before, e.out.v = output after
    LET before == e.in
        after == e.out.v
        orig == IF Len(before) > e.snap THEN before[e.snap + 1] ELSE -1
        lx == LexAt(after, e.snap + 1)
    IN IF after = before THEN TRUE
       ELSE /\ e.mut = M_typeconfusion /\ e.um = 1
            /\ orig # -1 /\ TypeClass(orig) # 0
            /\ Len(after) > e.snap
            /\ SubSeq(after, 1, e.snap) = SubSeq(before, 1, e.snap)
            /\ lx.known /\ lx.ok /\ lx.nxt = Len(after) + 1
            /\ TypeClass(lx.op) # 0 /\ TypeClass(lx.op) # TypeClass(orig)

MutFindings(k, e) ==
    IF e.panic # "" THEN <<V(k, "C16", <<"mutator panicked", e.mut, e.meth, e.panic>>)>>
    ELSE
      (IF e.rate = 0 /\ (e.out.some = 1 \/ (e.meth = "post" /\ e.out.v # e.in))
       THEN <<V(k, "C15", <<"mutated at rate 0.0", e.mut, e.meth, e.sk, e.src>>)>> ELSE <<>>)
   \o (IF e.rate = 2 /\ Applies(e) /\ (IF e.meth = "post" THEN e.out.v = e.in ELSE e.out.some = 0)
       THEN <<V(k, "C15", <<"not mutated at rate 1.0", e.mut, e.meth, e.sk, e.src>>)>> ELSE <<>>)
   \o (IF e.meth # "post" /\ e.out.some = 1 /\ ~Applies(e)
       THEN <<V(k, "C16", <<"mutator fired on a value kind outside its contract", e.mut, e.meth>>)>> ELSE <<>>)
   \o (IF e.meth # "post" /\ e.out.some = 1 /\ Applies(e) /\ ~Contract(e)
       THEN <<V(k, "C16", <<"result outside the mutator's contract", e.mut, e.meth, e.in, e.out.v>>)>> ELSE <<>>)
   \o (IF e.meth = "post" /\ ~PostContract(e)
       THEN <<V(k, "C16", <<"post-emission rewrite outside the contract", e.mut, e.um, e.in, e.out.v>>)>> ELSE <<>>)

Step ==
    /\ i < N
    /\ i' = i + 1
    /\ msgs' = IF Rec[i + 1].t = "ent" THEN EntFindings(i + 1, Rec[i + 1]) ELSE MutFindings(i + 1, Rec[i + 1])

Spec == Init /\ [][Step]_vars
Report == /\ (msgs = <<>> \/ PrintT(<<"MSGS", msgs>>))
          /\ (i < N \/ PrintT(<<"DONE", N, N>>))
=============================================================================
