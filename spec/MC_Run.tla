------------------------------- MODULE MC_Run -------------------------------
(* bounded instance of GenModel: one whole generate call from a fresh generator *)
EXTENDS GenModel
MC_Protocols == 0..5
MC_RangesSmall == {<<0, 0>>, <<3, 1>>, <<1, 3>>}
MC_FlagsQuick == {[unsafe |-> FALSE, ext |-> e, buf |-> b] : e \in BOOLEAN, b \in BOOLEAN} \cup {[unsafe |-> TRUE, ext |-> TRUE, buf |-> FALSE]}
MC_FlagsAll == {[unsafe |-> u, ext |-> e, buf |-> b] : u \in BOOLEAN, e \in BOOLEAN, b \in BOOLEAN}
MC_FlagsSafe == {[unsafe |-> FALSE, ext |-> e, buf |-> b] : e \in BOOLEAN, b \in BOOLEAN}
MC_FlagsOn == {[unsafe |-> FALSE, ext |-> TRUE, buf |-> TRUE]}
MC_RangesDeep == {<<4, 4>>}
MC_RangesQuick == {<<0, 0>>, <<2, 1>>, <<1, 3>>}
MC_ProtoDeep == {1, 5}
MC_ProtoLive == {0, 4}
MC_RangesLife == {<<0, 0>>, <<2, 3>>}
=============================================================================
