SPECIFICATION Spec
CONSTANTS
  OneByte = 256
  Pinned = FALSE
INVARIANT Report
CHECK_DEADLOCK FALSE
