SPECIFICATION TSpec
CONSTANTS
  OneByte = 256
  Pinned = FALSE
  DupShares = FALSE
  MaxOps = 0
  MaxCells = 0
INVARIANT Report
CHECK_DEADLOCK FALSE
