------------------------------- MODULE Lexer -------------------------------
(* Total decoding of ONE pickle opcode at a byte position, with the argument
   domains the pickle format / CPython unpickler require.  Written from the
   CPython pickletools readers and pickle.py load_* methods, not from src/.

   b    : sequence of integers 0..255 (1-based positions)
   i    : position of the opcode byte
   LexAt(b, i) = [op |-> opcode byte (or -1 when i is outside b),
                  known |-> opcode byte is in the table,
                  nxt |-> position just after the opcode and its argument,
                  ok  |-> argument fully present and inside its domain,
                  why |-> "" or a short reason,
                  arg |-> small integer argument (memo index, PROTO/EXT/uint value,
                          counted length) ; -1 when none; -2 when it does not fit
                          in TLC's 32-bit integers]
   TLC integers are 32-bit: all arithmetic is on bytes and 16-bit halves.       *)
EXTENDS Naturals, Integers, Sequences, PickleOps

Has(b, i, n) == i + n - 1 <= Len(b)

Lo16(b, i) == b[i] + 256 * b[i + 1]
Hi16(b, i) == b[i + 2] + 256 * b[i + 3]
Fits31(b, i) == Hi16(b, i) < 32768               \* 32-bit LE value is < 2^31
Val31(b, i) == Hi16(b, i) * 65536 + Lo16(b, i)   \* only meaningful when Fits31
Zero4(b, i) == b[i] = 0 /\ b[i + 1] = 0 /\ b[i + 2] = 0 /\ b[i + 3] = 0

IsDigit(c) == c \in 48..57
IsHex(c) == c \in 48..57 \/ c \in 65..70 \/ c \in 97..102
IsWs(c) == c \in {32, 9, 10, 11, 12, 13}
Lower(c) == IF c \in 65..90 THEN c + 32 ELSE c

RECURSIVE NlFrom(_, _)
NlFrom(b, i) == IF i > Len(b) THEN 0 ELSE IF b[i] = 10 THEN i ELSE NlFrom(b, i + 1)

RECURSIVE LTrim(_)
LTrim(s) == IF s # <<>> /\ IsWs(Head(s)) THEN LTrim(Tail(s)) ELSE s
RECURSIVE RTrim(_)
RTrim(s) == IF s # <<>> /\ IsWs(s[Len(s)]) THEN RTrim(SubSeq(s, 1, Len(s) - 1)) ELSE s
Trim(s) == RTrim(LTrim(s))

StripSign(s) == IF s # <<>> /\ s[1] \in {43, 45} THEN Tail(s) ELSE s
Negative(s) == s # <<>> /\ s[1] = 45

(* nonempty run of digits, single underscores allowed between digits (Python) *)
DigitsUnd(s) ==
    /\ Len(s) >= 1
    /\ IsDigit(s[1]) /\ IsDigit(s[Len(s)])
    /\ \A k \in 1..Len(s) :
          IsDigit(s[k]) \/ (s[k] = 95 /\ k > 1 /\ k < Len(s) /\ s[k - 1] # 95)

(* decimal literal accepted both by int(s) [pickletools] and int(s, 0) [unpickler] *)
IntLitOK(s) ==
    LET t == StripSign(Trim(s)) IN
    /\ DigitsUnd(t)
    /\ (t[1] = 48 => \A k \in 1..Len(t) : t[k] \in {48, 95})

AllZero(t) == \A k \in 1..Len(t) : t[k] \in {48, 95}

RECURSIVE DecAcc(_, _, _)
DecAcc(t, k, acc) ==
    IF k > Len(t) THEN acc
    ELSE IF t[k] = 95 THEN DecAcc(t, k + 1, acc)
    ELSE DecAcc(t, k + 1, acc * 10 + (t[k] - 48))
(* value of a non-negative decimal literal; -2 when it has more than 9 digits *)
DecVal(s) ==
    LET t == StripSign(Trim(s)) IN
    IF Len(t) > 9 THEN -2 ELSE DecAcc(t, 1, 0)

(* INT / PUT / GET argument (decimalnl_short) *)
ShortDecOK(line) == line = <<48, 48>> \/ line = <<48, 49>> \/ IntLitOK(line)
(* LONG argument (decimalnl_long): optional trailing L *)
StripL(line) == IF line # <<>> /\ line[Len(line)] = 76
                THEN SubSeq(line, 1, Len(line) - 1) ELSE line
LongDecOK(line) == IntLitOK(StripL(line))

IndexOfAny(s, set) ==
    IF \E k \in 1..Len(s) : s[k] \in set
    THEN CHOOSE k \in 1..Len(s) : s[k] \in set /\ \A j \in 1..(k - 1) : s[j] \notin set
    ELSE 0

LowerSeq(s) == [k \in 1..Len(s) |-> Lower(s[k])]

(* Python float(): inf / infinity / nan, or digits[.digits][e[+-]digits] *)
FloatLitOK(line) ==
    LET t == LowerSeq(StripSign(Trim(line)))
        e == IndexOfAny(t, {101})
        mant == IF e = 0 THEN t ELSE SubSeq(t, 1, e - 1)
        expo == IF e = 0 THEN <<>> ELSE SubSeq(t, e + 1, Len(t))
        d == IndexOfAny(mant, {46})
        ip == IF d = 0 THEN mant ELSE SubSeq(mant, 1, d - 1)
        fp == IF d = 0 THEN <<>> ELSE SubSeq(mant, d + 1, Len(mant))
    IN
    \/ t = <<105, 110, 102>>
    \/ t = <<105, 110, 102, 105, 110, 105, 116, 121>>
    \/ t = <<110, 97, 110>>
    \/ /\ (e = 0 \/ DigitsUnd(StripSign(expo)))
       /\ \/ (d = 0 /\ DigitsUnd(ip))
          \/ (d # 0 /\ DigitsUnd(ip) /\ (fp = <<>> \/ DigitsUnd(fp)))
          \/ (d # 0 /\ ip = <<>> /\ DigitsUnd(fp))

(* body of a quoted STRING: valid input of codecs.escape_decode whose result is
   ASCII (pickletools and the unpickler's default encoding decode it as ASCII):
   raw bytes < 128, \xHH below 0x80, octal escapes below \200                     *)
IsOct(c) == c \in 48..55
RECURSIVE EscOK(_, _)
EscOK(s, k) ==
    IF k > Len(s) THEN TRUE
    ELSE IF s[k] > 127 THEN FALSE
    ELSE IF s[k] # 92 THEN EscOK(s, k + 1)
    ELSE IF k = Len(s) THEN FALSE                      \* trailing backslash
    ELSE IF s[k + 1] = 120
         THEN k + 3 <= Len(s) /\ s[k + 2] \in 48..55 /\ IsHex(s[k + 3]) /\ EscOK(s, k + 4)
    ELSE IF IsOct(s[k + 1]) /\ k + 3 <= Len(s) /\ IsOct(s[k + 2]) /\ IsOct(s[k + 3])
         THEN s[k + 1] \in 48..49 /\ EscOK(s, k + 4)   \* three octal digits: value must stay below 128
    ELSE EscOK(s, k + 2)

QuotedOK(line) ==
    /\ Len(line) >= 2
    /\ line[1] \in {34, 39}
    /\ line[Len(line)] = line[1]
    /\ EscOK(SubSeq(line, 2, Len(line) - 1), 1)

(* raw-unicode-escape: \uXXXX / \UXXXXXXXX only after an odd run of backslashes *)
HexRun(s, k, n) == k + n - 1 <= Len(s) /\ \A j \in k..(k + n - 1) : IsHex(s[j])
RECURSIVE RawUniOK(_, _, _)
RawUniOK(s, k, run) ==
    IF k > Len(s) THEN TRUE
    ELSE IF s[k] = 92 THEN RawUniOK(s, k + 1, run + 1)
    ELSE IF run % 2 = 1 /\ s[k] = 117
         THEN HexRun(s, k + 1, 4) /\ RawUniOK(s, k + 5, 0)
    ELSE IF run % 2 = 1 /\ s[k] = 85
         THEN /\ HexRun(s, k + 1, 8)
              /\ s[k + 1] = 48 /\ s[k + 2] = 48
              /\ (s[k + 3] = 48 \/ (s[k + 3] = 49 /\ s[k + 4] = 48))   \* <= 0x10FFFF
              /\ RawUniOK(s, k + 9, 0)
    ELSE RawUniOK(s, k + 1, 0)

(* UTF-8 with surrogatepass, positions k..e of b *)
Cont(c) == c \in 128..191
RECURSIVE Utf8OK(_, _, _)
Utf8OK(b, k, e) ==
    IF k > e THEN TRUE
    ELSE LET c == b[k] IN
      IF c < 128 THEN Utf8OK(b, k + 1, e)
      ELSE IF c \in 194..223 THEN k + 1 <= e /\ Cont(b[k + 1]) /\ Utf8OK(b, k + 2, e)
      ELSE IF c = 224 THEN k + 2 <= e /\ b[k + 1] \in 160..191 /\ Cont(b[k + 2]) /\ Utf8OK(b, k + 3, e)
      ELSE IF c \in 225..239 THEN k + 2 <= e /\ Cont(b[k + 1]) /\ Cont(b[k + 2]) /\ Utf8OK(b, k + 3, e)
      ELSE IF c = 240 THEN k + 3 <= e /\ b[k + 1] \in 144..191 /\ Cont(b[k + 2]) /\ Cont(b[k + 3]) /\ Utf8OK(b, k + 4, e)
      ELSE IF c \in 241..243 THEN k + 3 <= e /\ Cont(b[k + 1]) /\ Cont(b[k + 2]) /\ Cont(b[k + 3]) /\ Utf8OK(b, k + 4, e)
      ELSE IF c = 244 THEN k + 3 <= e /\ b[k + 1] \in 128..143 /\ Cont(b[k + 2]) /\ Cont(b[k + 3]) /\ Utf8OK(b, k + 4, e)
      ELSE FALSE

Res(op, nxt, ok, why, arg) ==
    [op |-> op, known |-> TRUE, nxt |-> nxt, ok |-> ok, why |-> why, arg |-> arg]

Truncated(b, op) == Res(op, Len(b) + 1, FALSE, "truncated argument", -1)

(* one newline-terminated line starting at position a: <<ok, line, next>> *)
LineAt(b, a) ==
    LET nl == NlFrom(b, a) IN
    IF nl = 0 THEN <<FALSE, <<>>, Len(b) + 1>> ELSE <<TRUE, SubSeq(b, a, nl - 1), nl + 1>>

(* counted payload: n bytes after a header of h bytes at a *)
Counted(b, op, a, h, n, isText) ==
    IF n > Len(b) \/ ~Has(b, a + h, n) THEN Truncated(b, op)
    ELSE IF isText /\ ~Utf8OK(b, a + h, a + h + n - 1)
         THEN Res(op, a + h + n, FALSE, "payload is not UTF-8", n)
    ELSE Res(op, a + h + n, TRUE, "", n)

LexAt(b, i) ==
    IF i < 1 \/ i > Len(b)
    THEN [op |-> -1, known |-> FALSE, nxt |-> Len(b) + 1, ok |-> FALSE, why |-> "no opcode byte", arg |-> -1]
    ELSE
    LET op == b[i]
        a == i + 1
        fmt == OpArg(op)
    IN
    IF ~KnownOp(op)
    THEN [op |-> op, known |-> FALSE, nxt |-> i + 1, ok |-> FALSE, why |-> "unknown opcode byte", arg |-> -1]
    ELSE CASE fmt = "none" -> Res(op, a, TRUE, "", -1)
      [] fmt = "uint1" ->
           IF ~Has(b, a, 1) THEN Truncated(b, op)
           ELSE IF op = B_PROTO /\ b[a] > 5 THEN Res(op, a + 1, FALSE, "PROTO argument above 5", b[a])
           ELSE IF op = B_EXT1 /\ b[a] = 0 THEN Res(op, a + 1, FALSE, "EXT code 0", 0)
           ELSE Res(op, a + 1, TRUE, "", b[a])
      [] fmt = "uint2" ->
           IF ~Has(b, a, 2) THEN Truncated(b, op)
           ELSE IF op = B_EXT2 /\ Lo16(b, a) = 0 THEN Res(op, a + 2, FALSE, "EXT code 0", 0)
           ELSE Res(op, a + 2, TRUE, "", Lo16(b, a))
      [] fmt = "int4" ->
           IF ~Has(b, a, 4) THEN Truncated(b, op)
           ELSE IF op = B_EXT4 /\ (~Fits31(b, a) \/ Zero4(b, a))
                THEN Res(op, a + 4, FALSE, "EXT4 code not positive as a signed 32-bit value", -2)
           ELSE Res(op, a + 4, TRUE, "", IF Fits31(b, a) THEN Val31(b, a) ELSE -2)
      [] fmt = "uint4" ->
           IF ~Has(b, a, 4) THEN Truncated(b, op)
           ELSE Res(op, a + 4, TRUE, "", IF Fits31(b, a) THEN Val31(b, a) ELSE -2)
      [] fmt = "uint8" ->
           IF ~Has(b, a, 8) THEN Truncated(b, op)
           ELSE IF Zero4(b, a + 4) /\ Fits31(b, a) THEN Res(op, a + 8, TRUE, "", Val31(b, a))
           ELSE Res(op, a + 8, TRUE, "", -2)
      [] fmt = "float8" ->
           IF ~Has(b, a, 8) THEN Truncated(b, op) ELSE Res(op, a + 8, TRUE, "", -1)
      [] fmt \in {"string1", "bytes1", "unicodestring1"} ->
           IF ~Has(b, a, 1) THEN Truncated(b, op)
           ELSE Counted(b, op, a, 1, b[a], fmt = "unicodestring1")
      [] fmt = "string4" ->
           IF ~Has(b, a, 4) THEN Truncated(b, op)
           ELSE IF ~Fits31(b, a) THEN Res(op, Len(b) + 1, FALSE, "negative string4 length", -2)
           ELSE Counted(b, op, a, 4, Val31(b, a), FALSE)
      [] fmt \in {"bytes4", "unicodestring4"} ->
           IF ~Has(b, a, 4) THEN Truncated(b, op)
           ELSE IF ~Fits31(b, a) THEN Truncated(b, op)
           ELSE Counted(b, op, a, 4, Val31(b, a), fmt = "unicodestring4")
      [] fmt \in {"bytes8", "unicodestring8", "bytearray8"} ->
           IF ~Has(b, a, 8) THEN Truncated(b, op)
           ELSE IF ~(Zero4(b, a + 4) /\ Fits31(b, a)) THEN Truncated(b, op)
           ELSE Counted(b, op, a, 8, Val31(b, a), fmt = "unicodestring8")
      [] fmt = "long1" ->
           IF ~Has(b, a, 1) THEN Truncated(b, op) ELSE Counted(b, op, a, 1, b[a], FALSE)
      [] fmt = "long4" ->
           IF ~Has(b, a, 4) THEN Truncated(b, op)
           ELSE IF ~Fits31(b, a) THEN Res(op, Len(b) + 1, FALSE, "negative long4 length", -2)
           ELSE Counted(b, op, a, 4, Val31(b, a), FALSE)
      [] fmt = "decimalnl_short" ->
           LET l == LineAt(b, a) IN
           IF ~l[1] THEN Truncated(b, op)
           ELSE IF ~ShortDecOK(l[2]) THEN Res(op, l[3], FALSE, "not a decimal literal", -1)
           ELSE IF op \in {B_GET, B_PUT} /\ Negative(Trim(l[2])) /\ ~AllZero(StripSign(Trim(l[2])))
                THEN Res(op, l[3], FALSE, "negative memo index", -1)
           ELSE Res(op, l[3], TRUE, "", IF Negative(Trim(l[2])) THEN -1 ELSE DecVal(l[2]))
      [] fmt = "decimalnl_long" ->
           LET l == LineAt(b, a) IN
           IF ~l[1] THEN Truncated(b, op)
           ELSE IF ~LongDecOK(l[2]) THEN Res(op, l[3], FALSE, "not a decimal literal", -1)
           ELSE Res(op, l[3], TRUE, "", -1)
      [] fmt = "floatnl" ->
           LET l == LineAt(b, a) IN
           IF ~l[1] THEN Truncated(b, op)
           ELSE IF ~FloatLitOK(l[2]) THEN Res(op, l[3], FALSE, "not a float literal", -1)
           ELSE Res(op, l[3], TRUE, "", -1)
      [] fmt = "stringnl" ->
           LET l == LineAt(b, a) IN
           IF ~l[1] THEN Truncated(b, op)
           ELSE IF ~QuotedOK(l[2]) THEN Res(op, l[3], FALSE, "STRING not properly quoted/escaped", -1)
           ELSE Res(op, l[3], TRUE, "", -1)
      [] fmt = "unicodestringnl" ->
           LET l == LineAt(b, a) IN
           IF ~l[1] THEN Truncated(b, op)
           ELSE IF ~RawUniOK(l[2], 1, 0) THEN Res(op, l[3], FALSE, "bad raw-unicode-escape", -1)
           ELSE Res(op, l[3], TRUE, "", -1)
      [] fmt = "stringnl_noescape" ->
           LET l == LineAt(b, a) IN
           IF ~l[1] THEN Truncated(b, op)
           ELSE IF \E k \in 1..Len(l[2]) : l[2][k] > 127
                THEN Res(op, l[3], FALSE, "persistent id is not ASCII", -1)
           ELSE Res(op, l[3], TRUE, "", -1)
      [] fmt = "stringnl_noescape_pair" ->
           LET l1 == LineAt(b, a) IN
           IF ~l1[1] THEN Truncated(b, op)
           ELSE LET l2 == LineAt(b, l1[3]) IN
                IF ~l2[1] THEN Truncated(b, op)
                ELSE IF ~Utf8OK(b, a, l2[3] - 1) THEN Res(op, l2[3], FALSE, "module/name not UTF-8", -1)
                ELSE Res(op, l2[3], TRUE, "", -1)
      [] OTHER -> Res(op, a, FALSE, "unhandled argument format", -1)

(* Sequential decoding of a whole byte string (used by model checking and by the
   differential test against pickletools.genops): sequence of LexAt records up to
   and including the first STOP, the first malformed opcode, or the end.          *)
RECURSIVE LexAllFrom(_, _, _)
LexAllFrom(b, i, acc) ==
    IF i > Len(b) THEN acc
    ELSE LET r == LexAt(b, i) IN
         IF ~r.known \/ ~r.ok \/ r.op = B_STOP THEN Append(acc, r)
         ELSE LexAllFrom(b, r.nxt, Append(acc, r))
LexAll(b) == LexAllFrom(b, 1, <<>>)

(* C04: the whole string decodes, one STOP, at the last byte *)
WellFormed(b) ==
    LET rs == LexAll(b) IN
    /\ rs # <<>>
    /\ \A k \in 1..Len(rs) : rs[k].known /\ rs[k].ok
    /\ rs[Len(rs)].op = B_STOP
    /\ rs[Len(rs)].nxt = Len(b) + 1
=============================================================================
