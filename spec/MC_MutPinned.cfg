SPECIFICATION Spec
CONSTANTS
  PinnedGate = TRUE
  MaxList = 3
INVARIANT Inv_C15
CHECK_DEADLOCK FALSE
