SPECIFICATION Spec
CONSTANTS
  OneByte = 3
  Pinned = FALSE
  Protocols <- MC_Protocols
  Ranges <- MC_RangesLife
  Flags <- MC_FlagsOn
  MaxCalls = 2
  MaxMemo = 4
INVARIANTS Inv_C01 Inv_C02 Inv_C03 Inv_C05 Inv_C06 Inv_C08 Inv_C10 Inv_C11 Inv_C17
CHECK_DEADLOCK FALSE
