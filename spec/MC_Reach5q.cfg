SPECIFICATION RSpec
CONSTANTS
  OneByte = 256
  Pinned = FALSE
  Protocols <- MC_P5
  Ranges <- MC_T4
  Flags <- MC_ReachFlags
  Constructors <- MC_Cons5
  MaxCalls = 1
  MaxMemo = 2
VIEW RView
INVARIANT Witness
CONSTRAINT MemoBound
CHECK_DEADLOCK FALSE
