------------------------------ MODULE TraceGen ------------------------------
(* Trace validation of whole generations of the REAL generator.

   Input (IOEnv.TRACE): ndjson, one line per generation call:
     cfg (P, min, max, muts, rate class, unsafe, ext, buf), the returned bytes and
     the hook events (one per control point of generate_internal / cleanup).
   One TLC step consumes one event: the opcode at the event's byte span is decoded
   from the RETURNED BYTES by Lexer, executed by RefPVM, and compared with what the
   generator claims (opcode, simulated stack/memo delta, enabled set).  Property
   predicates are evaluated at every step; findings are printed as records
        <<"V", run id, event index, property, reason>>     (verdict: violation)
        <<"D", run id, event index, tag, reason>>          (model drift / diagnostics)
   instead of stopping, so one pass serves all properties and the rest of every
   trace is still checked.  The last step prints <<"DONE", runs, events>>.        *)
EXTENDS Naturals, Integers, Sequences, FiniteSets, TLC, Json, IOUtils, Lexer, RefPVM, GenCore, EntropyModel

Rec == ndJsonDeserialize(IOEnv.TRACE)
NRuns == Len(Rec)

VARIABLES run,      \* index of the current generation in Rec (NRuns+1 when finished)
          ev,       \* number of events of this run consumed so far
          pos,      \* output length after the previous event
          lexd,     \* Lexer result for the opcode of the last consumed event
          st,       \* reference machine: result record of the last RefStep (stk, memo, cls, ...)
          gs,       \* generator's claimed state [stk, memo, m] (abstract kinds; m = topmost MARK)
          broken,   \* reference already reported an error in this run (later steps cascade)
          cnt,      \* counters of the run
          msgs,     \* findings of the step that led to this state
          total,    \* events consumed over all runs
          cur,      \* EntropyModel: input bytes consumed so far (-1: prediction not applicable / given up)
          edrift    \* drift findings of the entropy prediction for the step that led to this state
vars == <<run, ev, pos, lexd, st, gs, broken, cnt, msgs, total, cur, edrift>>

(* TLC re-evaluates LET definitions at every use; results that are used several
   times (lexer record, reference step, generator state) are therefore staged
   through primed variables, which are evaluated once.                          *)

PH_begin == 1
PH_proto == 2
PH_reserve == 3
PH_target == 4
PH_body == 5
PH_close == 6
PH_collapse == 7
PH_pad == 8
PH_fix == 9
PH_stop == 10
PH_patch == 11
EmitPhases == {PH_body, PH_close, PH_collapse, PH_pad}

CntInit == [T |-> -1, body |-> 0, tail |-> 0, ops |-> 0, stop |-> 0, frameAt |-> 0, skip |-> FALSE, pieces |-> 0, mbroken |-> FALSE]
GsInit == [stk |-> <<>>, memo |-> <<>>, m |-> 0]
StInit == [stk |-> <<>>, memo |-> <<>>, cls |-> "", why |-> "", kept |-> 0, key |-> -1]
LexInit == [op |-> -1, known |-> FALSE, nxt |-> 0, ok |-> FALSE, why |-> "", arg |-> -1]
Quiet(s) == [s EXCEPT !.cls = "", !.why = "", !.key = -1, !.kept = Len(s.stk)]

Init == /\ run = 1 /\ ev = 0 /\ pos = 0
        /\ lexd = LexInit /\ st = StInit /\ gs = GsInit /\ broken = FALSE
        /\ cnt = CntInit /\ msgs = <<>> /\ total = 0 /\ cur = -1 /\ edrift = <<>>

V(r, k, prop, why) == <<"V", Rec[r].id, k, prop, why>>
D(r, k, tag, why) == <<"D", Rec[r].id, k, tag, why>>

Safe(c) == c.unsafe = 0 /\ c.mutUnsafe = 0

Min(a, b) == IF a < b THEN a ELSE b
Max(a, b) == IF a > b THEN a ELSE b

(* generator state after an event: keep `kept` cells, push the logged kinds
   (hook kind codes are abstracted on the way in) *)
MemoAdds(e) == {<<e.memo[j][1], Abs(e.memo[j][2])>> : j \in {x \in 1..Len(e.memo) : e.memo[x][2] # 255}}
RECURSIVE LastMarkIn(_, _)
LastMarkIn(p, k) == IF k = 0 THEN 0 ELSE IF p[k] = 0 THEN k ELSE LastMarkIn(p, k - 1)
GsApply(g, e) ==
    [stk |-> SubSeq(g.stk, 1, Min(e.kept, Len(g.stk))) \o AbsSeq(e.push),
     m |-> LET pm == LastMarkIn(e.push, Len(e.push)) IN
           IF pm > 0 THEN e.kept + pm
           ELSE IF g.m <= e.kept THEN g.m
           ELSE MarkFrom(g.stk, e.kept),
     memo |-> IF e.memo = <<>> THEN g.memo
              ELSE LET adds == MemoAdds(e)
                       dels == {e.memo[j][1] : j \in {x \in 1..Len(e.memo) : e.memo[x][2] = 255}}
                       dom == (DOMAIN g.memo \cup {d[1] : d \in adds}) \ dels
                   IN [k \in dom |-> IF \E d \in adds : d[1] = k
                                     THEN (CHOOSE d \in adds : d[1] = k)[2] ELSE g.memo[k]]]

(* C17: the claimed state mirrors the reference state; only the cells above `from`
   can have changed in this step, the rest held before (full relation: from = 0)  *)
Compat(gk, rk) == (gk = K_Mark <=> rk = K_Mark) /\ (rk = K_Any \/ rk = gk)
MirrorFrom(g, r, from) ==
    /\ Len(g.stk) = Len(r.stk)
    /\ \A k \in (from + 1)..Len(g.stk) : Compat(g.stk[k], r.stk[k])


BitOf(mask, j) == (mask[((j - 1) \div 24) + 1] \div (2 ^ ((j - 1) % 24))) % 2 = 1
MaskSet(mask) == {OpBytes[j] : j \in {x \in 1..Len(OpBytes) : BitOf(mask, x)}}

(* value class of a claimed opcode for the rate-1 rule of C15 *)
ValueClass(op) ==
    CASE op \in IntLikeOps -> 1
      [] op \in {B_FLOAT, B_BINFLOAT} -> 3
      [] op \in {B_STRING, B_UNICODE, B_SHORT_BINUNICODE, B_BINUNICODE, B_BINUNICODE8} -> 4
      [] op \in {B_BINSTRING, B_SHORT_BINSTRING, B_SHORT_BINBYTES, B_BINBYTES, B_BINBYTES8, B_BYTEARRAY8} -> 5
      [] op \in GetOps -> 6
      [] OTHER -> 0

---------------------------------------------------------------------------
(* findings of one emitting event (body / close / collapse / pad / stop / proto) *)

EmitFindings(r, k, e, c, bytes, lx, step, g2, isBody, more) ==
    LET safe == Safe(c)
        spanOK == lx.known /\ lx.ok /\ lx.nxt = e.len + 1
        judged == safe /\ ~broken /\ spanOK          \* last (normally only) opcode of the step
        stepped == safe /\ ~broken /\ lx.known /\ lx.ok /\ (spanOK \/ more)
        single == cnt.pieces = 0 /\ ~more
    IN
      (IF e.len <= pos THEN <<V(r, k, "C11", "step emitted no opcode")>> ELSE <<>>)
   \o (IF e.len > pos /\ ~lx.known THEN <<V(r, k, "C04", "unknown opcode byte")>> ELSE <<>>)
   \o (IF e.len > pos /\ lx.known /\ ~lx.ok THEN <<V(r, k, "C04", lx.why)>> ELSE <<>>)
   \o (IF e.len > pos /\ lx.known /\ lx.ok /\ lx.nxt > e.len + 1
       THEN <<V(r, k, "C11", "step does not span exactly one opcode"),
              V(r, k, "C04", "opcode argument extends beyond the bytes emitted by the step")>> ELSE <<>>)
   \o (IF more /\ isBody THEN <<V(r, k, "C11", "body step emitted more than one opcode")>> ELSE <<>>)
   \o (IF lx.known /\ lx.op \in ExtOps /\ c.ext = 0 THEN <<V(r, k, "C10", "EXT opcode although not enabled")>> ELSE <<>>)
   \o (IF lx.known /\ lx.op \in BufOps /\ c.buf = 0 THEN <<V(r, k, "C10", "buffer opcode although not enabled")>> ELSE <<>>)
   \o (IF lx.known /\ lx.op = B_FRAME /\ e.ph # PH_reserve THEN <<V(r, k, "C06", "FRAME outside the header")>> ELSE <<>>)
   \o (IF safe /\ lx.known /\ OpProto(lx.op) > c.P THEN <<V(r, k, "C05", "opcode of a later protocol")>> ELSE <<>>)
   \o (IF safe /\ lx.known /\ lx.op = B_PROTO /\ e.ph # PH_proto THEN <<V(r, k, "C05", "PROTO outside the header")>> ELSE <<>>)
   \o (IF safe /\ c.P = 0 /\ \E j \in (pos + 1)..e.len : bytes[j] > 127
       THEN <<V(r, k, "C05", "protocol 0 output is not 7-bit ASCII")>> ELSE <<>>)
   \o (IF judged /\ ~cnt.mbroken /\ single /\ e.op >= 0 /\ lx.op \notin Family(e.op)
       THEN <<V(r, k, "C17", "claimed opcode differs from the emitted bytes")>> ELSE <<>>)
   \o (IF stepped /\ step.cls # "" THEN <<V(r, k, PropertyOf(step.cls), step.why)>> ELSE <<>>)
   \o (IF judged /\ ~cnt.mbroken /\ e.ph # PH_stop /\ step.cls \in {"", "kind"} /\ ~MirrorFrom(g2, step, Min(e.kept, step.kept))
       THEN <<V(r, k, "C17", "simulated stack differs from the reference stack")>> ELSE <<>>)
   \o (IF judged /\ ~cnt.mbroken /\ single /\ step.cls \in {"", "kind"}
          /\ {e.memo[j][1] : j \in {x \in 1..Len(e.memo) : e.memo[x][2] # 255}} # (IF step.key = -1 THEN {} ELSE {step.key})
       THEN <<V(r, k, "C17", "simulated memo differs from the reference memo")>> ELSE <<>>)
   \o (IF c.rate = 0 /\ (e.mu # <<>> \/ e.rw # <<>> \/ e.rwn = 1)
       THEN <<V(r, k, "C15", "value mutated or bytes rewritten at rate 0")>> ELSE <<>>)
   \o (IF Len(e.mu) > 1
       THEN <<V(r, k, "C15", "more than one mutator changed the value of one opcode (first applicable mutator must win)")>> ELSE <<>>)
   \o (IF isBody /\ ~more /\ e.len > pos /\ c.rate = 2 /\ e.op >= 0 /\ ValueClass(e.op) # 0
          /\ FirstApplicable(c.muts, ValueClass(e.op)) # {}
          /\ ~(0 \in FirstApplicable(c.muts, ValueClass(e.op)) /\ ~\E j \in 1..Len(e.mu) : e.mu[j][1] = ValueClass(e.op))
          /\ ~\E j \in 1..Len(e.mu) : e.mu[j][1] = ValueClass(e.op) /\ (e.mu[j][2] + 1) \in FirstApplicable(c.muts, ValueClass(e.op))
       THEN <<V(r, k, "C15", "value not mutated by the first applicable mutator at rate 1")>> ELSE <<>>)

(* opcodes without argument whose acceptability depends only on the stack *)
ArglessOps == {B_POP, B_DUP, B_POP_MARK, B_TUPLE, B_LIST, B_DICT, B_FROZENSET, B_TUPLE1, B_TUPLE2, B_TUPLE3,
               B_APPEND, B_APPENDS, B_SETITEM, B_SETITEMS, B_ADDITEMS, B_STACK_GLOBAL, B_REDUCE, B_NEWOBJ,
               B_NEWOBJ_EX, B_BUILD, B_OBJ, B_BINPERSID, B_READONLY_BUFFER}

(* Reference-guided forcing: once the simulated state has left the mirror relation in a run, the
   implementation's enabled set is compared with what the REFERENCE would accept in its true state;
   an enabled opcode the reference would reject is reported like an `impl-only` opcode, so the driver
   forces it at this step and the resulting real generation is judged.                         *)
RefRejected(e) ==
    {op \in MaskSet(e.en) \cap ArglessOps : RefStep(st, op, -1).cls \in {"stack", "mark", "kind"}}

(* conformance of the implementation with GenModel (drift, never a verdict) *)
DriftFindings(r, k, e, c, g2) ==
    LET mc == ModelCfg(c) IN
      (IF e.hen = 1 /\ MaskSet(e.en) # EnabledSetM(mc, gs.stk, DOMAIN gs.memo, gs.m)
       THEN <<D(r, k, "enabled", <<"impl-only", MaskSet(e.en) \ EnabledSetM(mc, gs.stk, DOMAIN gs.memo, gs.m),
                                   "model-only", EnabledSetM(mc, gs.stk, DOMAIN gs.memo, gs.m) \ MaskSet(e.en)>>)>> ELSE <<>>)
   \o (IF e.hen = 1 /\ cnt.mbroken /\ Safe(c) /\ ~broken /\ RefRejected(e) # {}
       THEN <<D(r, k, "enabled", <<"impl-only", RefRejected(e), "model-only", {}>>)>> ELSE <<>>)
   \o (IF e.op >= 0 /\ Safe(c)
          /\ ~EffectOK(mc, e.op, gs, g2, e.kept, MemoAdds(e))
       THEN <<D(r, k, "effect", "state change differs from GenModel effect")>> ELSE <<>>)

---------------------------------------------------------------------------
StepEvent0 ==
    /\ run <= NRuns
    /\ ev < Len(Rec[run].ev)
    /\ LET r == run
           k == ev + 1
           e == Rec[r].ev[k]
           c == Rec[r].cfg
           bytes == Rec[r].bytes
           emitting == e.ph \in EmitPhases \cup {PH_stop} \/ (e.ph \in {PH_proto, PH_reserve} /\ e.len > pos)
           dirty == e.len # 0 \/ e.push # <<>> \/ e.ml # 0 \/ e.pe = 1
           \* the step's bytes hold a further opcode after this one (an emission without its own
           \* hook event): consume one opcode per TLC step and stay on the same event
           more == emitting /\ ~cnt.skip /\ e.kept <= Len(gs.stk) /\ lexd'.known /\ lexd'.ok /\ lexd'.nxt <= e.len
       IN
       /\ lexd' = IF emitting /\ ~cnt.skip THEN LexAt(bytes, pos + 1) ELSE LexInit
       /\ ev' = IF more THEN ev ELSE k
       /\ total' = IF more THEN total ELSE total + 1
       /\ pos' = IF more THEN lexd'.nxt - 1 ELSE e.len
       /\ gs' = IF more THEN gs ELSE GsApply(gs, e)
       /\ st' = IF e.ph = PH_begin THEN StInit
                ELSE IF emitting /\ ~cnt.skip /\ ~broken /\ lexd'.known THEN RefStep(st, lexd'.op, lexd'.arg)
                ELSE Quiet(st)
       /\ IF e.kept > Len(gs.stk) THEN
             /\ msgs' = <<D(r, k, "hook", "event keeps more cells than the simulated stack held (events missing or out of order)")>>
             /\ broken' = TRUE /\ UNCHANGED cnt
          ELSE IF cnt.skip THEN
             /\ msgs' = <<>> /\ UNCHANGED <<broken, cnt>>
          ELSE IF e.ph = PH_begin THEN
             /\ broken' = FALSE
             /\ cnt' = [CntInit EXCEPT !.skip = dirty]
             /\ msgs' = IF dirty THEN <<D(r, k, "dirty-entry", "generation started from leftover state")>> ELSE <<>>
          ELSE IF e.ph = PH_target THEN
             /\ UNCHANGED broken
             /\ cnt' = [cnt EXCEPT !.T = e.T]
             /\ msgs' = IF (c.max <= c.min /\ e.T # c.min) \/ (c.max > c.min /\ (e.T < c.min \/ e.T > c.max))
                        THEN <<V(r, k, "C11", "target outside [min, max]")>> ELSE <<>>
          ELSE IF ~emitting THEN
             /\ UNCHANGED <<broken, cnt>>
             /\ msgs' = (IF e.len # pos THEN <<V(r, k, "C11", "bytes appended outside an opcode step")>> ELSE <<>>)
                     \o (IF e.ph = PH_proto /\ Safe(c) /\ c.P >= 2 THEN <<V(r, k, "C05", "no PROTO header")>> ELSE <<>>)
                     \o (IF e.ph = PH_fix /\ Safe(c) /\ ~broken /\ ~cnt.mbroken /\ ~MirrorFrom(gs', st, Min(e.kept, Len(st.stk)))
                         THEN <<V(r, k, "C17", "simulated stack differs from the reference stack")>> ELSE <<>>)
          ELSE
             /\ msgs' = EmitFindings(r, k, e, c, bytes, lexd', st', gs', e.ph = PH_body, more)
                     \o (IF e.ph = PH_proto /\ Safe(c) /\ (c.P < 2 \/ lexd'.op # B_PROTO \/ lexd'.arg # c.P)
                         THEN <<V(r, k, "C05", "header is not PROTO <P>")>> ELSE <<>>)
                     \o (IF e.ph = PH_reserve /\ (c.P < 4 \/ lexd'.op # B_FRAME \/ e.len # pos + 9)
                         THEN <<V(r, k, "C06", "reserved header bytes are not a FRAME opcode of a protocol >= 4")>> ELSE <<>>)
                     \o (IF e.ph = PH_reserve /\ lexd'.op = B_FRAME /\ lexd'.arg # Len(bytes) - (pos + 9)
                         THEN <<V(r, k, "C06", "FRAME length differs from the number of bytes that follow")>> ELSE <<>>)
                     \o (IF e.ph = PH_stop /\ lexd'.op # B_STOP THEN <<V(r, k, "C04", "final opcode is not STOP")>> ELSE <<>>)
                     \o (IF e.ph \in EmitPhases /\ cnt.pieces = 0 /\ ~more THEN DriftFindings(r, k, e, c, gs') ELSE <<>>)
             /\ broken' = (broken \/ ~(lexd'.known /\ lexd'.ok /\ (lexd'.nxt = e.len + 1 \/ more)) \/ st'.cls \notin {"", "kind"})
             /\ cnt' = [cnt EXCEPT !.body = @ + (IF e.ph = PH_body /\ ~more THEN 1 ELSE 0),
                                   !.tail = @ + (IF e.ph \in {PH_close, PH_collapse, PH_pad} THEN 1 ELSE 0),
                                   !.pieces = IF more THEN @ + 1 ELSE 0,
                                   !.mbroken = @ \/ \E j \in 1..Len(msgs') : msgs'[j][1] = "V" /\ msgs'[j][4] = "C17",
                                   !.ops = @ + 1,
                                   !.stop = @ + (IF lexd'.known /\ lexd'.op = B_STOP THEN 1 ELSE 0),
                                   !.frameAt = IF e.ph = PH_reserve THEN pos + 1 ELSE @]
    /\ UNCHANGED run

(* EntropyModel: prediction of this event's decision from the input bytes, and the cursor
   after it.  <<new cursor, drift findings>> *)
Predict(r, k, e, c, inp, more) ==
    LET mc == ModelCfg(c)
        range == IF c.max > c.min THEN c.max - c.min ELSE 0
    IN
    IF e.ph = PH_begin THEN
        IF Rec[r].hasinp = 1 /\ e.len = 0 THEN <<(IF c.P >= 4 THEN Skip(inp, 0, 1) ELSE 0), <<>>>> ELSE <<-1, <<>>>>
    ELSE IF cur < 0 \/ cnt.skip THEN <<-1, <<>>>>
    ELSE IF e.ph = PH_reserve THEN
        LET coin == c.P >= 4 /\ Len(inp) >= 1 /\ inp[1] % 2 = 1 IN
        IF coin = (e.len > pos) THEN <<cur, <<>>>>
        ELSE <<-1, <<D(r, k, "frame-coin", "FRAME decision differs from the first input byte's low bit")>>>>
    ELSE IF e.ph = PH_target THEN
        LET d == Choose(inp, cur, range) IN
        IF e.T = c.min + d[1] THEN <<d[2], <<>>>>
        ELSE <<-1, <<D(r, k, "target", <<"target differs from EntropyModel", c.min + d[1], e.T>>)>>>>
    ELSE IF e.ph = PH_body /\ ~more /\ cnt.pieces = 0 THEN
        LET seq == EnabledSeqM(mc, gs.stk, DOMAIN gs.memo, gs.m)
            d == Choose(inp, cur, Len(seq))
            pred == IF seq = <<>> THEN -1 ELSE seq[d[1] + 1]
            nk == Cardinality(DOMAIN gs.memo)
            nk1 == Cardinality({x \in DOMAIN gs.memo : x < OneByte})
        IN IF pred # e.op
           THEN <<-1, <<D(r, k, "choice", <<"chosen opcode differs from EntropyModel (enabled list in table order, index drawn from the input)", pred, e.op>>)>>>>
           ELSE IF e.op \in IntLikeOps /\ lexd'.known /\ lexd'.op # IntVariant(mc, inp, d[2])
           THEN <<-1, <<D(r, k, "int-variant", <<"integer variant differs from EntropyModel", IntVariant(mc, inp, d[2]), lexd'.op>>)>>>>
           ELSE <<EmitConsume(mc, e.op, inp, d[2], nk, nk1, c.muts, c.rate), <<>>>>
    ELSE <<cur, <<>>>>

(* the step proper plus the entropy prediction (its drift findings are reported with the
   next state through `edrift`) *)
StepEvent ==
    /\ StepEvent0
    /\ LET r == run
           k == ev + 1
           e == Rec[r].ev[k]
           more == ev' = ev
           p == Predict(r, k, e, Rec[r].cfg, Rec[r].inp, more)
       IN cur' = p[1] /\ edrift' = p[2]

(* after the last event of a run: whole-output checks, then the next run *)
EndRun ==
    /\ run <= NRuns
    /\ ev = Len(Rec[run].ev)
    /\ LET r == run
           c == Rec[r].cfg
           bytes == Rec[r].bytes
           k == ev
           big == Max(c.min, c.max)
       IN msgs' =
          IF Rec[r].res # 1 THEN <<V(r, k, "C09", "generation did not return Ok: " \o Rec[r].msg)>>
          ELSE IF cnt.skip THEN <<>>
          ELSE
            (IF bytes = <<>> THEN <<V(r, k, "C09", "empty result")>> ELSE <<>>)
         \o (IF pos # Len(bytes) THEN <<V(r, k, "C04", "returned bytes extend beyond the last recorded opcode")>> ELSE <<>>)
         \o (IF cnt.stop # 1 \/ Len(bytes) = 0 \/ bytes[Len(bytes)] # B_STOP
             THEN <<V(r, k, "C04", "not exactly one STOP at the last byte")>> ELSE <<>>)
         \o (IF cnt.T >= 0 /\ cnt.body # cnt.T THEN <<V(r, k, "C11", "number of body opcodes differs from the target")>> ELSE <<>>)
         \o (IF cnt.T >= 0 /\ cnt.tail > 2 * cnt.T + 1 THEN <<V(r, k, "C11", "collapse tail longer than 2T+1")>> ELSE <<>>)
         \o (IF cnt.ops < c.min + 1 \/ cnt.ops > 3 * big + 4 THEN <<V(r, k, "C11", "opcode count outside [min+1, 3*max+4]")>> ELSE <<>>)
    /\ run' = run + 1 /\ ev' = 0 /\ pos' = 0
    /\ lexd' = LexInit /\ st' = StInit /\ gs' = GsInit /\ broken' = FALSE /\ cnt' = CntInit
    /\ UNCHANGED total
    /\ cur' = -1
    /\ edrift' = IF cur >= 0 /\ ~cnt.skip /\ Rec[run].res = 1 /\ Rec[run].consumed # cur
                 THEN <<D(run, ev, "entropy-consumed", <<"input bytes consumed differ from EntropyModel", cur, Rec[run].consumed>>)>> ELSE <<>>

Done == run = NRuns + 1

Next == StepEvent \/ EndRun

Spec == Init /\ [][Next]_vars

(* reporting: evaluated once per new state, always TRUE *)
Report == /\ (msgs = <<>> \/ PrintT(<<"MSGS", msgs>>))
          /\ (edrift = <<>> \/ PrintT(<<"MSGS", edrift>>))
          /\ (~Done \/ PrintT(<<"DONE", NRuns, total>>))
=============================================================================
