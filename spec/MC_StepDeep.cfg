SPECIFICATION Spec
CONSTANTS
  OneByte = 3
  Pinned = FALSE
  MaxDepth = 4
  StepConfigs <- MC_StepConfigs
  MemoShapes <- MC_ShapesEmpty
INVARIANTS Inv_C01 Inv_C02 Inv_C03 Inv_C05 Inv_C17 Inv_Progress
CHECK_DEADLOCK FALSE
