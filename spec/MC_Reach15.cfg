SPECIFICATION RSpec
CONSTANTS
  OneByte = 256
  Pinned = FALSE
  Protocols <- MC_P15
  Ranges <- MC_T5
  Flags <- MC_ReachFlags
  Constructors <- MC_Cons5
  MaxCalls = 1
  MaxMemo = 2
VIEW RView
INVARIANT Witness
CONSTRAINT MemoBound
CHECK_DEADLOCK FALSE
