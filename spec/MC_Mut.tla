------------------------------- MODULE MC_Mut -------------------------------
(* The mutation-rate gate and the first-applicable-mutator-wins loop of
   src/generator/mutation.rs + src/mutators/*.rs as a small state machine (C15).

   One behaviour = one value passing through Generator::mutate_<kind>: the registered
   mutators are tried in order; a mutator that does not implement the value kind
   answers None without drawing; one that does draws x and fires iff the gate lets
   it; the first that fires wins.  The draw x is abstracted to a class:
     PRNG source        : "zero" (x = 0.0), "mid" (0 < x < 1)
     fuzzer bytes, pinned tree (gen_f64 = raw bits): additionally "nan", "neg", "big"
     fuzzer bytes, repaired tree (gen_unit_f64)    : "zero" (also when exhausted), "mid"
   Gate, pinned : no mutation iff x > rate      Gate, repaired : mutation iff x < rate  *)
EXTENDS Naturals, Sequences, FiniteSets, TLC

CONSTANTS PinnedGate, MaxList

Mutators == 1..7          \* ids as in GenCore
ValueKinds == {1, 3, 4, 5, 6}   \* int, float, string, bytes, memo index
Rates == {"zero", "half", "one"}

Applicable(m, vc, empty) ==
    CASE vc = 1 -> m \in {1, 2, 3}
      [] vc = 3 -> m = 2
      [] vc \in {4, 5} -> m = 4 \/ (m = 5 /\ ~empty)
      [] vc = 6 -> m \in {3, 6}
      [] OTHER -> FALSE
(* mutators that implement the method at all (they draw from the entropy source) *)
Implements(m, vc) ==
    CASE vc = 1 -> m \in {1, 2, 3}
      [] vc = 3 -> m = 2
      [] vc \in {4, 5} -> m \in {4, 5}
      [] vc = 6 -> m \in {3, 6}
      [] OTHER -> FALSE

DrawClasses == IF PinnedGate THEN {"zero", "mid", "nan", "neg", "big"} ELSE {"zero", "mid"}

(* x > rate, for the abstract classes; "mid" vs "half" is undetermined *)
Greater(x, rate) ==
    CASE x = "nan" -> {FALSE}
      [] x = "neg" -> {FALSE}
      [] x = "big" -> {TRUE}
      [] x = "zero" -> {FALSE}
      [] x = "mid" -> IF rate = "zero" THEN {TRUE} ELSE IF rate = "one" THEN {FALSE} ELSE BOOLEAN
Less(x, rate) ==
    CASE x = "zero" -> {rate # "zero"}
      [] x = "mid" -> IF rate = "zero" THEN {FALSE} ELSE IF rate = "one" THEN {TRUE} ELSE BOOLEAN
      [] OTHER -> {FALSE}
Fires(x, rate) == IF PinnedGate THEN {~g : g \in Greater(x, rate)} ELSE Less(x, rate)

VARIABLES muts, vc, empty, rate, j, fired, done
vars == <<muts, vc, empty, rate, j, fired, done>>

Lists == UNION {[1..n -> Mutators] : n \in 0..MaxList}

Init == /\ muts \in Lists /\ vc \in ValueKinds /\ empty \in BOOLEAN /\ rate \in Rates
        /\ (empty => vc \in {4, 5})
        /\ j = 1 /\ fired = 0 /\ done = FALSE

Try ==
    /\ ~done /\ j <= Len(muts)
    /\ IF ~Implements(muts[j], vc)
       THEN j' = j + 1 /\ UNCHANGED <<fired, done>>
       ELSE \E x \in DrawClasses : \E f \in Fires(x, rate) :
              IF f /\ Applicable(muts[j], vc, empty)
              THEN fired' = j /\ done' = TRUE /\ UNCHANGED j
              ELSE j' = j + 1 /\ UNCHANGED <<fired, done>>
    /\ UNCHANGED <<muts, vc, empty, rate>>

Finish == /\ ~done /\ j > Len(muts) /\ done' = TRUE /\ UNCHANGED <<muts, vc, empty, rate, j, fired>>

Next == Try \/ Finish
Spec == Init /\ [][Next]_vars

FirstApplicable ==
    IF \E k \in 1..Len(muts) : Applicable(muts[k], vc, empty)
    THEN CHOOSE k \in 1..Len(muts) : Applicable(muts[k], vc, empty) /\ \A i \in 1..(k - 1) : ~Applicable(muts[i], vc, empty)
    ELSE 0

Inv_C15 == done => /\ (rate = "zero" => fired = 0)
                   /\ (rate = "one" => fired = FirstApplicable)
=============================================================================
