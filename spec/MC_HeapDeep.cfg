SPECIFICATION Spec
CONSTANTS
  OneByte = 256
  Pinned = FALSE
  DupShares = FALSE
  MaxOps = 7
  MaxCells = 14
INVARIANTS NoCycle Unshared
CHECK_DEADLOCK FALSE
PROPERTY MutatesOnlySlots
