SPECIFICATION Spec
CONSTANTS
  OneByte = 256
  Pinned = TRUE
INVARIANT Report
CHECK_DEADLOCK FALSE
