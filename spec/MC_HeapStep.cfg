SPECIFICATION StepSpec
CONSTANTS
  OneByte = 256
  Pinned = FALSE
  DupShares = FALSE
  MaxOps = 1
  MaxCells = 100
  N = 3
INVARIANTS Inv
CHECK_DEADLOCK FALSE
